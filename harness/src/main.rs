//! vcheck — bounded exhaustive exploration of the brush properties C01..C20.
//! One binary, three roles: explorer (`vcheck C07 --tier quick`), in-process worker
//! (`vcheck --worker KIND`), and — when invoked through a symlink — the real `brush` shell
//! (`brush_shell::entry::run()`) or one of the deterministic helper externals.

mod corpus;
mod engine;
mod helpers;
mod props;

use engine::report::Tier;

fn main() {
    let args: Vec<String> = std::env::args().collect();
    let base = std::path::Path::new(&args[0]).file_name().map(|s| s.to_string_lossy().into_owned()).unwrap_or_default();
    if base == "brush" || base == "-brush" {
        brush_shell::entry::run();
        return;
    }
    if helpers::is_helper(&base) {
        std::process::exit(helpers::main(&base, &args[1..]));
    }
    if args.len() >= 3 && args[1] == "--worker" {
        let h = props::worker(&args[2]);
        engine::pool::worker_main(h);
    }
    if args.len() >= 4 && args[1] == "--run-script" {
        // debugging aid: run one script in-process (mode = string|file|dash-c) without the pool
        let mut h = props::common::script_worker();
        let out = h(serde_json::json!({"s": args[3], "mode": args[2]}).to_string().as_bytes());
        println!("{}", String::from_utf8_lossy(&out));
        return;
    }
    if args.len() < 2 {
        eprintln!("usage: vcheck <PROPERTY> [--tier quick|thorough] [--replay FILE]");
        std::process::exit(2);
    }
    let prop = args[1].clone();
    let mut tier = match std::env::var("VERIF_TIER").as_deref() {
        Ok("thorough") => Tier::Thorough,
        _ => Tier::Quick,
    };
    let mut replay = None;
    let mut i = 2;
    while i < args.len() {
        match args[i].as_str() {
            "--tier" => {
                i += 1;
                tier = match args.get(i).map(|s| s.as_str()) {
                    Some("thorough") => Tier::Thorough,
                    Some("quick") => Tier::Quick,
                    _ => engine::report::machinery_fail("bad --tier"),
                };
            }
            "--replay" => {
                i += 1;
                let p = args.get(i).cloned().unwrap_or_default();
                let txt = std::fs::read_to_string(&p).unwrap_or_else(|e| engine::report::machinery_fail(&format!("cannot read replay {p}: {e}")));
                replay = Some(serde_json::from_str(&txt).unwrap_or_else(|e| engine::report::machinery_fail(&format!("bad replay json: {e}"))));
            }
            other => engine::report::machinery_fail(&format!("unknown argument {other}")),
        }
        i += 1;
    }
    engine::procs::init_explorer_scratch();
    unsafe { libc::umask(0o022) };
    // the explorer itself must never be taken down by a stray SIGPIPE
    unsafe { libc::signal(libc::SIGPIPE, libc::SIG_IGN) };
    let r = std::panic::catch_unwind(|| props::run(&prop, tier, replay));
    engine::procs::cleanup_scratch();
    if r.is_err() {
        eprintln!("machinery failure: explorer panicked");
        std::process::exit(2);
    }
}
