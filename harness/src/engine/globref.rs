//! Reference glob matcher (backtracking, character based): `*`, `?`, bracket expressions with ranges,
//! negation, classes and a literal leading `]`, backslash escapes, and the extglob forms
//! `?() *() +() @() !()`. It is validated against bash on the enumerated space on every run and is then
//! used for the bash-independent whole-string / shortest-longest laws.

#[derive(Clone, Debug, PartialEq)]
pub enum Node {
    Lit(char),
    Any,
    Star,
    Bracket { neg: bool, items: Vec<BrItem> },
    Ext { kind: char, alts: Vec<Vec<Node>> },
}

#[derive(Clone, Debug, PartialEq)]
pub enum BrItem {
    Ch(char),
    Range(char, char),
    Class(String),
}

pub fn parse(p: &str, extglob: bool) -> Vec<Node> {
    let cs: Vec<char> = p.chars().collect();
    let (nodes, _) = parse_seq(&cs, 0, extglob, false);
    nodes
}

/// Parses until end, or (inside an extglob group) until an unescaped `|` or `)`.
fn parse_seq(cs: &[char], mut i: usize, extglob: bool, in_group: bool) -> (Vec<Node>, usize) {
    let mut out = vec![];
    while i < cs.len() {
        let c = cs[i];
        if in_group && (c == '|' || c == ')') {
            return (out, i);
        }
        if extglob && "?*+@!".contains(c) && i + 1 < cs.len() && cs[i + 1] == '(' {
            if let Some((alts, end)) = parse_group(cs, i + 2, extglob) {
                out.push(Node::Ext { kind: c, alts });
                i = end;
                continue;
            }
        }
        match c {
            '\\' => {
                if i + 1 < cs.len() {
                    out.push(Node::Lit(cs[i + 1]));
                    i += 2;
                } else {
                    out.push(Node::Lit('\\'));
                    i += 1;
                }
            }
            '?' => {
                out.push(Node::Any);
                i += 1;
            }
            '*' => {
                out.push(Node::Star);
                i += 1;
            }
            '[' => {
                if let Some((neg, items, end)) = parse_bracket(cs, i) {
                    out.push(Node::Bracket { neg, items });
                    i = end;
                } else {
                    out.push(Node::Lit('['));
                    i += 1;
                }
            }
            _ => {
                out.push(Node::Lit(c));
                i += 1;
            }
        }
    }
    (out, i)
}

/// `i` points just after "X(". Returns alternatives and the index after the closing ')'.
fn parse_group(cs: &[char], mut i: usize, extglob: bool) -> Option<(Vec<Vec<Node>>, usize)> {
    let mut alts = vec![];
    loop {
        let (seq, j) = parse_seq(cs, i, extglob, true);
        alts.push(seq);
        if j >= cs.len() {
            return None; // unterminated group: not an extglob
        }
        if cs[j] == ')' {
            return Some((alts, j + 1));
        }
        i = j + 1; // skip '|'
    }
}

fn parse_bracket(cs: &[char], start: usize) -> Option<(bool, Vec<BrItem>, usize)> {
    let mut i = start + 1;
    let mut neg = false;
    if i < cs.len() && (cs[i] == '!' || cs[i] == '^') {
        neg = true;
        i += 1;
    }
    let mut items = vec![];
    let mut first = true;
    loop {
        if i >= cs.len() {
            return None;
        }
        let c = cs[i];
        if c == ']' && !first {
            return Some((neg, items, i + 1));
        }
        first = false;
        // character class
        if c == '[' && i + 1 < cs.len() && cs[i + 1] == ':' {
            if let Some(end) = (i + 2..cs.len().saturating_sub(1)).find(|&k| cs[k] == ':' && cs[k + 1] == ']') {
                let name: String = cs[i + 2..end].iter().collect();
                items.push(BrItem::Class(name));
                i = end + 2;
                continue;
            }
        }
        let mut lo = c;
        i += 1;
        if c == '\\' && i < cs.len() {
            lo = cs[i];
            i += 1;
        }
        if i + 1 < cs.len() && cs[i] == '-' && cs[i + 1] != ']' {
            let mut hi = cs[i + 1];
            let mut adv = 2;
            if hi == '\\' && i + 2 < cs.len() {
                hi = cs[i + 2];
                adv = 3;
            }
            items.push(BrItem::Range(lo, hi));
            i += adv;
        } else {
            items.push(BrItem::Ch(lo));
        }
    }
}

fn class_match(name: &str, c: char) -> bool {
    match name {
        "alpha" => c.is_alphabetic(),
        "digit" => c.is_ascii_digit(),
        "alnum" => c.is_alphanumeric(),
        "upper" => c.is_uppercase(),
        "lower" => c.is_lowercase(),
        "space" => c.is_whitespace(),
        "blank" => c == ' ' || c == '\t',
        "punct" => c.is_ascii_punctuation(),
        "print" => !c.is_control(),
        "graph" => !c.is_control() && c != ' ',
        "cntrl" => c.is_control(),
        "xdigit" => c.is_ascii_hexdigit(),
        "word" => c.is_alphanumeric() || c == '_',
        _ => false,
    }
}

fn fold(c: char, nocase: bool) -> char {
    if nocase { c.to_lowercase().next().unwrap_or(c) } else { c }
}

fn bracket_match(neg: bool, items: &[BrItem], c: char, nocase: bool) -> bool {
    let mut hit = false;
    for it in items {
        let h = match it {
            BrItem::Ch(x) => fold(*x, nocase) == fold(c, nocase),
            BrItem::Range(lo, hi) => (*lo <= c && c <= *hi) || (nocase && ((*lo <= fold(c, true) && fold(c, true) <= *hi) || c.to_uppercase().next().is_some_and(|u| *lo <= u && u <= *hi))),
            BrItem::Class(n) => class_match(n, c) || (nocase && (class_match(n, fold(c, true)) || c.to_uppercase().next().is_some_and(|u| class_match(n, u)))),
        };
        if h {
            hit = true;
            break;
        }
    }
    hit != neg
}

/// Does `nodes` match exactly `s[..]` (whole string)?
pub fn matches(nodes: &[Node], s: &[char], nocase: bool) -> bool {
    m(nodes, s, nocase, &mut 0)
}

fn m(nodes: &[Node], s: &[char], nocase: bool, steps: &mut u64) -> bool {
    *steps += 1;
    if *steps > 2_000_000 {
        return false;
    }
    let Some((first, rest)) = nodes.split_first() else {
        return s.is_empty();
    };
    match first {
        Node::Lit(c) => !s.is_empty() && fold(s[0], nocase) == fold(*c, nocase) && m(rest, &s[1..], nocase, steps),
        Node::Any => !s.is_empty() && m(rest, &s[1..], nocase, steps),
        Node::Star => (0..=s.len()).any(|k| m(rest, &s[k..], nocase, steps)),
        Node::Bracket { neg, items } => !s.is_empty() && bracket_match(*neg, items, s[0], nocase) && m(rest, &s[1..], nocase, steps),
        Node::Ext { kind, alts } => {
            let one = |t: &[char], steps: &mut u64| alts.iter().any(|a| m(a, t, nocase, steps));
            match kind {
                '@' => (0..=s.len()).any(|k| one(&s[..k], steps) && m(rest, &s[k..], nocase, steps)),
                '?' => m(rest, s, nocase, steps) || (0..=s.len()).any(|k| one(&s[..k], steps) && m(rest, &s[k..], nocase, steps)),
                '!' => (0..=s.len()).any(|k| !one(&s[..k], steps) && m(rest, &s[k..], nocase, steps)),
                '*' | '+' => {
                    // k = end of the repeated part; the repeated part splits into >=1 (or >=0) pieces
                    let min = if *kind == '+' { 1 } else { 0 };
                    (0..=s.len()).any(|k| rep(alts, &s[..k], min, nocase, steps) && m(rest, &s[k..], nocase, steps))
                }
                _ => false,
            }
        }
    }
}

fn rep(alts: &[Vec<Node>], s: &[char], min: usize, nocase: bool, steps: &mut u64) -> bool {
    if s.is_empty() && min == 0 {
        return true;
    }
    // first piece non-empty unless the whole thing is empty (avoid infinite recursion)
    if s.is_empty() {
        return alts.iter().any(|a| m(a, s, nocase, steps));
    }
    (1..=s.len()).any(|k| alts.iter().any(|a| m(a, &s[..k], nocase, steps)) && rep(alts, &s[k..], min.saturating_sub(1), nocase, steps))
        || (min <= 1 && false)
}

pub fn match_str(pattern: &str, s: &str, extglob: bool, nocase: bool) -> bool {
    let nodes = parse(pattern, extglob);
    let cs: Vec<char> = s.chars().collect();
    matches(&nodes, &cs, nocase)
}

/// Reference for `${v#p}` / `${v##p}` / `${v%p}` / `${v%%p}` by the law in the statement.
pub fn remove(pattern: &str, v: &str, suffix: bool, longest: bool, extglob: bool) -> String {
    let nodes = parse(pattern, extglob);
    let cs: Vec<char> = v.chars().collect();
    let n = cs.len();
    let lens: Vec<usize> = if longest { (0..=n).rev().collect() } else { (0..=n).collect() };
    for k in lens {
        let (cand, rest): (&[char], &[char]) = if suffix { (&cs[n - k..], &cs[..n - k]) } else { (&cs[..k], &cs[k..]) };
        if matches(&nodes, cand, false) {
            return rest.iter().collect();
        }
    }
    v.to_string()
}
