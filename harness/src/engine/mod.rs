pub mod bash;
pub mod enumerate;
pub mod globref;
pub mod inproc;
pub mod pool;
pub mod procs;
pub mod report;
pub mod shards;
