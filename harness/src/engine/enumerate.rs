//! Deterministic, simplest-first enumerators.

/// All strings over `alphabet` (each symbol may be multi-char) with 0..=max_len symbols, shortest first.
pub fn strings(alphabet: &[&str], max_len: usize) -> Vec<String> {
    let mut out = vec![String::new()];
    let mut frontier = vec![String::new()];
    for _ in 0..max_len {
        let mut next = Vec::with_capacity(frontier.len() * alphabet.len());
        for p in &frontier {
            for a in alphabet {
                let mut s = p.clone();
                s.push_str(a);
                next.push(s);
            }
        }
        out.extend(next.iter().cloned());
        frontier = next;
    }
    out
}

/// Number of strings with exactly `len` symbols.
pub fn count_exact(k: usize, len: usize) -> u64 {
    (k as u64).pow(len as u32)
}

/// Calls `f` for every string of exactly `len` more symbols appended to `prefix` (depth-first,
/// alphabet order); the buffer is reused.
pub fn for_each_suffix(alphabet: &[&str], prefix: &str, len: usize, f: &mut dyn FnMut(&str)) {
    fn rec(alphabet: &[&str], buf: &mut String, len: usize, f: &mut dyn FnMut(&str)) {
        if len == 0 {
            f(buf);
            return;
        }
        for a in alphabet {
            let l = buf.len();
            buf.push_str(a);
            rec(alphabet, buf, len - 1, f);
            buf.truncate(l);
        }
    }
    let mut buf = prefix.to_string();
    rec(alphabet, &mut buf, len, f);
}

/// Cartesian product helper: all index vectors for the given radices.
pub fn product(radices: &[usize]) -> Vec<Vec<usize>> {
    let mut out = vec![vec![]];
    for &r in radices {
        let mut next = Vec::with_capacity(out.len() * r);
        for p in &out {
            for i in 0..r {
                let mut q = p.clone();
                q.push(i);
                next.push(q);
            }
        }
        out = next;
    }
    out
}

/// All sequences over 0..k of length 0..=max_len (shortest first).
pub fn sequences(k: usize, max_len: usize) -> Vec<Vec<usize>> {
    let mut out = vec![vec![]];
    let mut frontier: Vec<Vec<usize>> = vec![vec![]];
    for _ in 0..max_len {
        let mut next = vec![];
        for p in &frontier {
            for i in 0..k {
                let mut q = p.clone();
                q.push(i);
                next.push(q);
            }
        }
        out.extend(next.iter().cloned());
        frontier = next;
    }
    out
}
