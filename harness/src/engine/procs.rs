//! Running many short processes (bash oracle, the real brush binary) in parallel, each in its own
//! scratch directory, with stdout/stderr captured to files and a wall-clock cap.

use std::os::unix::process::{CommandExt, ExitStatusExt};
use std::path::{Path, PathBuf};
use std::process::{Command, Stdio};
use std::sync::atomic::{AtomicUsize, Ordering};
use std::sync::{Arc, Mutex};
use std::time::{Duration, Instant};

#[derive(Clone, Debug, Default)]
pub struct ProcSpec {
    pub argv: Vec<String>,
    pub stdin: Option<Vec<u8>>,
    /// files to create in the scratch dir before the run: (relative name, content)
    pub files: Vec<(String, Vec<u8>)>,
    pub env: Vec<(String, String)>,
    pub timeout_ms: u64,
    /// collect the contents of all regular files in the scratch dir afterwards
    pub collect_files: bool,
    /// keep stdin attached to the given file name inside the scratch dir (instead of a pipe)
    pub stdin_file: Option<String>,
    /// do not re-run a timed-out case with a doubled budget
    pub no_confirm: bool,
    /// keep at most this many bytes of stdout / stderr (0 = the defaults, 8 MiB / 1 MiB)
    pub cap_output: usize,
}

#[derive(Clone, Debug, Default)]
pub struct ProcOut {
    pub status: i32,
    pub signal: Option<i32>,
    pub stdout: Vec<u8>,
    pub stderr: Vec<u8>,
    pub timed_out: bool,
    pub wall_ms: u64,
    pub files: Vec<(String, Vec<u8>)>,
}

impl ProcOut {
    pub fn out_str(&self) -> String {
        String::from_utf8_lossy(&self.stdout).into_owned()
    }
    pub fn err_str(&self) -> String {
        String::from_utf8_lossy(&self.stderr).into_owned()
    }
}

fn scratch_base() -> &'static str {
    if Path::new("/dev/shm").is_dir() { "/dev/shm" } else { "/tmp" }
}

/// The explorer owns `/dev/shm/vcheck.<pid>`; workers live in a sub-directory of it (passed through
/// VCHECK_SCRATCH) so one removal at the end cleans everything, even after killed workers.
pub fn scratch_root() -> PathBuf {
    let p = match std::env::var_os("VCHECK_SCRATCH") {
        Some(r) if std::env::var_os("VCHECK_IS_WORKER").is_some() => PathBuf::from(r).join(format!("k{}", std::process::id())),
        _ => PathBuf::from(format!("{}/vcheck.{}", scratch_base(), std::process::id())),
    };
    let _ = std::fs::create_dir_all(&p);
    p
}

pub fn init_explorer_scratch() {
    let p = PathBuf::from(format!("{}/vcheck.{}", scratch_base(), std::process::id()));
    let _ = std::fs::create_dir_all(&p);
    // SAFETY: single-threaded at this point (start of main)
    unsafe { std::env::set_var("VCHECK_SCRATCH", &p) };
    // remove leftovers of explorers that no longer exist
    if let Ok(rd) = std::fs::read_dir(scratch_base()) {
        for e in rd.flatten() {
            let name = e.file_name().to_string_lossy().into_owned();
            if let Some(pid) = name.strip_prefix("vcheck.").and_then(|x| x.parse::<i32>().ok()) {
                if unsafe { libc::kill(pid, 0) } != 0 {
                    let _ = std::fs::remove_dir_all(e.path());
                }
            }
        }
    }
}

pub fn cleanup_scratch() {
    if std::env::var_os("VCHECK_IS_WORKER").is_some() {
        return;
    }
    let p = PathBuf::from(format!("{}/vcheck.{}", scratch_base(), std::process::id()));
    let _ = std::fs::remove_dir_all(p);
}

/// Helper dir with multi-call symlinks to this executable (`brush`, `vcat`, `vargs`, ...).
pub fn helper_dir() -> PathBuf {
    static DIR: Mutex<Option<PathBuf>> = Mutex::new(None);
    let mut g = DIR.lock().unwrap();
    if let Some(d) = &*g {
        return d.clone();
    }
    if let Some(d) = std::env::var_os("VCHECK_HELPERS") {
        let d = PathBuf::from(d);
        *g = Some(d.clone());
        return d;
    }
    let exe = std::env::current_exe().expect("current_exe");
    let d = scratch_root().join("bin");
    let _ = std::fs::create_dir_all(&d);
    for name in crate::helpers::NAMES.iter().chain(["brush"].iter()) {
        let l = d.join(name);
        let _ = std::fs::remove_file(&l);
        std::os::unix::fs::symlink(&exe, &l).expect("symlink helper");
    }
    *g = Some(d.clone());
    d
}

pub fn brush_path() -> String {
    helper_dir().join("brush").to_string_lossy().into_owned()
}

/// The hermetic environment both shells run under.
pub fn hermetic_env(home: &Path) -> Vec<(String, String)> {
    vec![
        ("LC_ALL".into(), "C.utf8".into()),
        ("TZ".into(), "UTC".into()),
        ("HOME".into(), home.to_string_lossy().into_owned()),
        ("PATH".into(), helper_dir().to_string_lossy().into_owned()),
        ("VCHECK_HELPERS".into(), helper_dir().to_string_lossy().into_owned()),
    ]
}

fn read_cap(p: &Path, cap: usize) -> Vec<u8> {
    use std::io::Read as _;
    let mut v = Vec::new();
    if let Ok(f) = std::fs::File::open(p) {
        let _ = f.take(cap as u64).read_to_end(&mut v);
    }
    v.shrink_to_fit();
    v
}

pub fn run_one(spec: &ProcSpec, dir: &Path) -> ProcOut {
    let _ = std::fs::remove_dir_all(dir);
    std::fs::create_dir_all(dir).expect("mkdir scratch");
    let work = dir.join("w");
    std::fs::create_dir_all(&work).unwrap();
    for (name, content) in &spec.files {
        let p = work.join(name);
        if let Some(parent) = p.parent() {
            let _ = std::fs::create_dir_all(parent);
        }
        std::fs::write(&p, content).expect("write scratch file");
    }
    let outp = dir.join("stdout");
    let errp = dir.join("stderr");
    let fout = std::fs::File::create(&outp).unwrap();
    let ferr = std::fs::File::create(&errp).unwrap();
    let mut cmd = Command::new(&spec.argv[0]);
    cmd.args(&spec.argv[1..]);
    cmd.current_dir(&work);
    cmd.env_clear();
    for (k, v) in hermetic_env(&work) {
        cmd.env(k, v);
    }
    for (k, v) in &spec.env {
        cmd.env(k, v);
    }
    cmd.stdout(Stdio::from(fout)).stderr(Stdio::from(ferr));
    if let Some(name) = &spec.stdin_file {
        cmd.stdin(Stdio::from(std::fs::File::open(work.join(name)).expect("stdin file")));
    } else if let Some(data) = &spec.stdin {
        let inp = dir.join("stdin");
        std::fs::write(&inp, data).unwrap();
        cmd.stdin(Stdio::from(std::fs::File::open(&inp).unwrap()));
    } else {
        cmd.stdin(Stdio::null());
    }
    // own process group so that a timeout kills grandchildren as well (process_group keeps the fast
    // posix_spawn path; the umask is set once in the explorer)
    cmd.process_group(0);
    let start = Instant::now();
    let mut child = match cmd.spawn() {
        Ok(c) => c,
        Err(e) => crate::engine::report::machinery_fail(&format!("cannot spawn {:?}: {e}", spec.argv)),
    };
    let pid = child.id() as i32;
    let deadline = start + Duration::from_millis(spec.timeout_ms.max(1));
    let mut timed_out = false;
    let status = loop {
        match child.try_wait() {
            Ok(Some(st)) => break st,
            Ok(None) => {
                if Instant::now() >= deadline {
                    timed_out = true;
                    unsafe { libc::kill(-pid, libc::SIGKILL) };
                    let _ = child.kill();
                    break child.wait().unwrap();
                }
                let el = start.elapsed().as_millis();
                std::thread::sleep(Duration::from_micros(if el < 20 { 300 } else { 2000 }));
            }
            Err(e) => crate::engine::report::machinery_fail(&format!("wait: {e}")),
        }
    };
    // kill any leftover background children of the case
    unsafe { libc::kill(-pid, libc::SIGKILL) };
    let mut out = ProcOut {
        status: status.code().unwrap_or_else(|| 128 + status.signal().unwrap_or(0)),
        signal: status.signal(),
        stdout: read_cap(&outp, if spec.cap_output > 0 { spec.cap_output } else { 8 << 20 }),
        stderr: read_cap(&errp, if spec.cap_output > 0 { spec.cap_output } else { 1 << 20 }),
        timed_out,
        wall_ms: start.elapsed().as_millis() as u64,
        files: vec![],
    };
    if spec.collect_files {
        let mut names: Vec<_> = walk(&work, &work);
        names.sort();
        for n in names {
            let c = read_cap(&work.join(&n), 1 << 20);
            out.files.push((n, c));
        }
    }
    let _ = std::fs::remove_dir_all(dir);
    out
}

fn walk(root: &Path, dir: &Path) -> Vec<String> {
    let mut v = vec![];
    if let Ok(rd) = std::fs::read_dir(dir) {
        for e in rd.flatten() {
            let p = e.path();
            let md = match std::fs::symlink_metadata(&p) {
                Ok(m) => m,
                Err(_) => continue,
            };
            if md.is_dir() {
                v.extend(walk(root, &p));
            } else if md.is_file() {
                v.push(p.strip_prefix(root).unwrap().to_string_lossy().into_owned());
            }
        }
    }
    v
}

pub fn run_many(specs: &[ProcSpec], par: usize) -> Vec<ProcOut> {
    let n = specs.len();
    let results: Arc<Mutex<Vec<Option<ProcOut>>>> = Arc::new(Mutex::new(vec![None; n]));
    let next = Arc::new(AtomicUsize::new(0));
    let root = scratch_root();
    // make sure the helper dir exists before threads race to create it
    let _ = helper_dir();
    static RUN_ID: AtomicUsize = AtomicUsize::new(0);
    let run_id = RUN_ID.fetch_add(1, Ordering::SeqCst);
    std::thread::scope(|s| {
        for t in 0..par.max(1).min(n.max(1)) {
            let results = results.clone();
            let next = next.clone();
            let root = root.clone();
            s.spawn(move || {
                loop {
                    let i = next.fetch_add(1, Ordering::SeqCst);
                    if i >= n {
                        break;
                    }
                    let dir = root.join(format!("p{run_id}.{t}"));
                    let mut o = run_one(&specs[i], &dir);
                    if o.timed_out && !specs[i].no_confirm {
                        // confirm in isolation with a doubled budget
                        let mut s2 = specs[i].clone();
                        s2.timeout_ms *= 2;
                        o = run_one(&s2, &dir);
                    }
                    results.lock().unwrap()[i] = Some(o);
                }
            });
        }
    });
    let r = Arc::try_unwrap(results).unwrap().into_inner().unwrap();
    r.into_iter().map(|o| o.unwrap()).collect()
}
