//! Worker pool: runs cases in separate OS processes (`vcheck --worker KIND`) so that a panic with
//! abort, a stack overflow, an endless loop or an OOM kills one case, not the run. The protocol is
//! streaming (one framed request, one framed response) so the case in flight when a worker dies
//! or exceeds its deadline is known exactly; the worker is then restarted for the remaining cases.

use std::io::{Read, Write};
use std::process::{Child, ChildStdin, ChildStdout, Command, Stdio};
use std::sync::atomic::{AtomicUsize, Ordering};
use std::sync::{Arc, Mutex};
use std::time::{Duration, Instant};

#[derive(Clone, Debug, PartialEq, Eq)]
pub enum Outcome {
    Ok(Vec<u8>),
    /// caught panic (message with location)
    Panic(String),
    /// worker process died (signal / abort / stack overflow / exit)
    Died(String),
    /// case exceeded its wall-clock budget (confirmed by an isolated re-run with a doubled budget)
    Timeout,
}

impl Outcome {
    pub fn ok(&self) -> Option<&[u8]> {
        match self {
            Outcome::Ok(v) => Some(v),
            _ => None,
        }
    }
    pub fn ok_str(&self) -> Option<String> {
        self.ok().map(|b| String::from_utf8_lossy(b).into_owned())
    }
    pub fn describe(&self) -> String {
        match self {
            Outcome::Ok(v) => format!("ok:{}", String::from_utf8_lossy(v)),
            Outcome::Panic(m) => format!("PANIC:{m}"),
            Outcome::Died(m) => format!("DIED:{m}"),
            Outcome::Timeout => "TIMEOUT".to_string(),
        }
    }
    pub fn is_crash(&self) -> bool {
        !matches!(self, Outcome::Ok(_))
    }
}

pub struct PoolCfg {
    pub kind: String,
    pub workers: usize,
    pub timeout: Duration,
    pub env: Vec<(String, String)>,
    /// worker RSS cap in bytes (RLIMIT_AS is too blunt for tokio; we use RLIMIT_DATA)
    pub mem_cap: u64,
    /// re-run a timed-out case on a fresh worker with a doubled budget before reporting it (off for
    /// multi-case chunks that are split into single cases anyway)
    pub confirm_timeouts: bool,
}

impl PoolCfg {
    pub fn new(kind: &str) -> Self {
        Self {
            kind: kind.to_string(),
            workers: ncpu(),
            timeout: Duration::from_secs(10),
            env: vec![],
            mem_cap: 4 << 30,
            confirm_timeouts: true,
        }
    }
    pub fn timeout_ms(mut self, ms: u64) -> Self {
        self.timeout = Duration::from_millis(ms);
        self
    }
    pub fn no_confirm(mut self) -> Self {
        self.confirm_timeouts = false;
        self
    }
    pub fn workers(mut self, n: usize) -> Self {
        self.workers = n.max(1);
        self
    }
    pub fn env(mut self, k: &str, v: &str) -> Self {
        self.env.push((k.to_string(), v.to_string()));
        self
    }
}

/// Crashes seen once in a shared worker that did not reproduce on a fresh worker (reported in evidence).
pub static UNCONFIRMED_CRASHES: AtomicUsize = AtomicUsize::new(0);

pub fn ncpu() -> usize {
    std::env::var("VCHECK_JOBS")
        .ok()
        .and_then(|s| s.parse().ok())
        .unwrap_or_else(|| std::thread::available_parallelism().map(|n| n.get()).unwrap_or(8))
}

struct Worker {
    child: Child,
    tx: ChildStdin,
    rx: ChildStdout,
}

fn spawn_worker(cfg: &PoolCfg) -> Worker {
    // /proc/self/exe stays executable even when the file on disk is replaced by a rebuild
    let mut cmd = Command::new("/proc/self/exe");
    cmd.arg("--worker").arg(&cfg.kind);
    cmd.stdin(Stdio::piped()).stdout(Stdio::piped());
    if std::env::var_os("VCHECK_DEBUG").is_none() {
        cmd.stderr(Stdio::null());
    }
    for (k, v) in &cfg.env {
        cmd.env(k, v);
    }
    cmd.env("VCHECK_MEM_CAP", cfg.mem_cap.to_string());
    cmd.env("VCHECK_IS_WORKER", "1");
    cmd.env("VCHECK_HELPERS", super::procs::helper_dir());
    let mut child = cmd.spawn().expect("spawn worker");
    let tx = child.stdin.take().unwrap();
    let rx = child.stdout.take().unwrap();
    Worker { child, tx, rx }
}

fn write_frame(w: &mut impl Write, data: &[u8]) -> std::io::Result<()> {
    w.write_all(&(data.len() as u32).to_le_bytes())?;
    w.write_all(data)?;
    w.flush()
}

/// Reads one frame with a deadline, using poll(2) on the pipe.
fn read_frame_deadline(rx: &mut ChildStdout, deadline: Instant) -> Result<Vec<u8>, &'static str> {
    use std::os::fd::AsRawFd;
    let fd = rx.as_raw_fd();
    let mut need_hdr = true;
    let mut want = 4usize;
    let mut buf: Vec<u8> = Vec::new();
    loop {
        while buf.len() < want {
            let now = Instant::now();
            if now >= deadline {
                return Err("timeout");
            }
            let ms = (deadline - now).as_millis().min(1000) as i32;
            let mut pfd = libc::pollfd { fd, events: libc::POLLIN, revents: 0 };
            let r = unsafe { libc::poll(&mut pfd, 1, ms.max(1)) };
            if r < 0 {
                continue;
            }
            if r == 0 {
                continue;
            }
            let mut tmp = vec![0u8; (want - buf.len()).min(1 << 16)];
            match rx.read(&mut tmp) {
                Ok(0) => return Err("eof"),
                Ok(n) => buf.extend_from_slice(&tmp[..n]),
                Err(e) if e.kind() == std::io::ErrorKind::Interrupted => {}
                Err(_) => return Err("eof"),
            }
        }
        if need_hdr {
            let n = u32::from_le_bytes([buf[0], buf[1], buf[2], buf[3]]) as usize;
            need_hdr = false;
            buf.clear();
            want = n;
            if n == 0 {
                return Ok(vec![]);
            }
        } else {
            return Ok(buf);
        }
    }
}

fn kill_worker(mut w: Worker) -> String {
    let _ = w.child.kill();
    match w.child.wait() {
        Ok(st) => format!("{st}"),
        Err(e) => format!("wait error {e}"),
    }
}

fn reap_status(mut w: Worker) -> String {
    // the worker closed its pipe; collect the status (with a short grace period)
    for _ in 0..200 {
        match w.child.try_wait() {
            Ok(Some(st)) => {
                use std::os::unix::process::ExitStatusExt;
                if let Some(sig) = st.signal() {
                    return format!("signal {sig}");
                }
                return format!("exit {}", st.code().unwrap_or(-1));
            }
            Ok(None) => std::thread::sleep(Duration::from_millis(5)),
            Err(e) => return format!("wait error {e}"),
        }
    }
    kill_worker(w)
}

/// Run one case on a given worker; returns the outcome and whether the worker is still usable.
fn run_one(w: &mut Option<Worker>, cfg: &PoolCfg, case: &[u8], timeout: Duration) -> Outcome {
    if w.is_none() {
        *w = Some(spawn_worker(cfg));
    }
    let wk = w.as_mut().unwrap();
    if write_frame(&mut wk.tx, case).is_err() {
        let st = reap_status(w.take().unwrap());
        return Outcome::Died(format!("worker gone before case: {st}"));
    }
    match read_frame_deadline(&mut wk.rx, Instant::now() + timeout) {
        Ok(frame) => {
            if frame.is_empty() {
                return Outcome::Ok(vec![]);
            }
            match frame[0] {
                b'O' => Outcome::Ok(frame[1..].to_vec()),
                b'P' => {
                    // the worker exits after a panic (runtime state is not trusted afterwards)
                    let msg = String::from_utf8_lossy(&frame[1..]).into_owned();
                    let _ = reap_status(w.take().unwrap());
                    Outcome::Panic(msg)
                }
                _ => Outcome::Died("protocol error".into()),
            }
        }
        Err("timeout") => {
            kill_worker(w.take().unwrap());
            Outcome::Timeout
        }
        Err(_) => {
            let st = reap_status(w.take().unwrap());
            Outcome::Died(st)
        }
    }
}

/// Run all cases; `progress` is an optional label printed to stderr.
pub fn run(cfg: &PoolCfg, cases: &[Vec<u8>]) -> Vec<Outcome> {
    let n = cases.len();
    let results: Arc<Mutex<Vec<Option<Outcome>>>> = Arc::new(Mutex::new(vec![None; n]));
    let next = Arc::new(AtomicUsize::new(0));
    // crash budget: crashing and hanging cases cost up to three times their wall-clock cap (the run and its
    // confirmation with a doubled cap). Once the worker time spent on them exceeds 90 s per worker, the
    // remaining cases are not run: the run is a failure already, and must not take hours to say so.
    // (Cases that die at once — a stack overflow — hardly use the budget.)
    let crashes = Arc::new(AtomicUsize::new(0)); // milliseconds of worker time spent in crashed cases
    let crash_budget: usize = std::env::var("VCHECK_CRASH_BUDGET_MS").ok().and_then(|s| s.parse().ok()).unwrap_or(cfg.workers * 90_000);
    // small chunks: slow cases cluster (neighbouring cases come from the same template), and a chunk is
    // worked off by one worker
    let chunk = (n / (cfg.workers * 16)).clamp(1, 8);
    std::thread::scope(|s| {
        for _ in 0..cfg.workers.min(n.max(1)) {
            let results = results.clone();
            let next = next.clone();
            let crashes = crashes.clone();
            s.spawn(move || {
                let mut w: Option<Worker> = None;
                loop {
                    let start = next.fetch_add(chunk, Ordering::SeqCst);
                    if start >= n {
                        break;
                    }
                    let end = (start + chunk).min(n);
                    let mut local = Vec::with_capacity(end - start);
                    for i in start..end {
                        if crashes.load(Ordering::SeqCst) >= crash_budget {
                            local.push(Outcome::Died(format!("NOT RUN: crashing and hanging cases of this run had already used {} s of worker time", crash_budget / 1000)));
                            continue;
                        }
                        let t0 = Instant::now();
                        let mut o = run_one(&mut w, cfg, &cases[i], cfg.timeout);
                        if t0.elapsed() > Duration::from_millis(std::env::var("VCHECK_SLOW_MS").ok().and_then(|s| s.parse().ok()).unwrap_or(5000)) && std::env::var_os("VCHECK_QUIET").is_none() {
                            eprintln!(
                                "  [pool {}] slow case ({:.1}s, {}): {}",
                                cfg.kind,
                                t0.elapsed().as_secs_f64(),
                                if o.is_crash() { o.describe() } else { "ok".into() },
                                super::report::truncate(&String::from_utf8_lossy(&cases[i]), 3000)
                            );
                        }
                        if matches!(o, Outcome::Died(_) | Outcome::Panic(_)) && cfg.confirm_timeouts {
                            // a crash must reproduce on a fresh worker: state left behind by earlier cases
                            // of the same worker (background tasks, threads) must not be blamed on this one
                            let mut w2: Option<Worker> = None;
                            let o2 = run_one(&mut w2, cfg, &cases[i], cfg.timeout);
                            if let Some(wk) = w2 {
                                kill_worker(wk);
                            }
                            if !o2.is_crash() {
                                UNCONFIRMED_CRASHES.fetch_add(1, Ordering::SeqCst);
                            }
                            o = o2;
                        }
                        if matches!(o, Outcome::Timeout) && cfg.confirm_timeouts {
                            // confirm on a fresh worker with a doubled budget: load must not
                            // create alarms
                            let mut w2: Option<Worker> = None;
                            o = run_one(&mut w2, cfg, &cases[i], cfg.timeout * 2);
                            if let Some(wk) = w2 {
                                kill_worker(wk);
                            }
                        }
                        if o.is_crash() {
                            crashes.fetch_add(t0.elapsed().as_millis() as usize, Ordering::SeqCst);
                        }
                        local.push(o);
                    }
                    let mut r = results.lock().unwrap();
                    for (k, o) in local.into_iter().enumerate() {
                        r[start + k] = Some(o);
                    }
                }
                if let Some(wk) = w {
                    drop(wk.tx);
                    let mut c = wk.child;
                    let _ = c.wait();
                }
            });
        }
    });
    let r = Arc::try_unwrap(results).unwrap().into_inner().unwrap();
    r.into_iter().map(|o| o.expect("case not run")).collect()
}

pub fn run_strs(cfg: &PoolCfg, cases: &[String]) -> Vec<Outcome> {
    let v: Vec<Vec<u8>> = cases.iter().map(|s| s.as_bytes().to_vec()).collect();
    run(cfg, &v)
}

// ------------------------------------------------------------------------------------------------
// worker side

pub type Handler = Box<dyn FnMut(&[u8]) -> Vec<u8>>;

thread_local! {
    static LAST_PANIC: std::cell::RefCell<Option<String>> = const { std::cell::RefCell::new(None) };
}
static LAST_PANIC_GLOBAL: Mutex<Option<String>> = Mutex::new(None);

pub fn install_panic_recorder() {
    std::panic::set_hook(Box::new(|info| {
        let loc = info
            .location()
            .map(|l| format!("{}:{}", l.file(), l.line()))
            .unwrap_or_else(|| "?".into());
        let msg = if let Some(s) = info.payload().downcast_ref::<&str>() {
            (*s).to_string()
        } else if let Some(s) = info.payload().downcast_ref::<String>() {
            s.clone()
        } else {
            "<non-string panic>".to_string()
        };
        let full = format!("{loc}: {msg}");
        if let Ok(mut g) = LAST_PANIC_GLOBAL.lock() {
            if g.is_none() {
                *g = Some(full);
            }
        }
    }));
}

pub fn take_last_panic() -> Option<String> {
    LAST_PANIC_GLOBAL.lock().ok().and_then(|mut g| g.take())
}

/// Worker main loop: frames on (dup of) stdin/stdout; fds 0/1 re-pointed at /dev/null so nothing
/// the code under test prints can corrupt the protocol.
pub fn worker_main(mut handler: Handler) -> ! {
    use std::os::fd::FromRawFd;
    let (pin, pout) = unsafe {
        let pin = libc::fcntl(0, libc::F_DUPFD_CLOEXEC, 200);
        let pout = libc::fcntl(1, libc::F_DUPFD_CLOEXEC, 200);
        let devnull = libc::open(c"/dev/null".as_ptr(), libc::O_RDWR);
        libc::dup2(devnull, 0);
        libc::dup2(devnull, 1);
        libc::close(devnull);
        (pin, pout)
    };
    // die with the explorer (a killed explorer must not leave spinning workers behind)
    unsafe { libc::prctl(libc::PR_SET_PDEATHSIG, libc::SIGKILL) };
    if let Ok(cap) = std::env::var("VCHECK_MEM_CAP") {
        if let Ok(n) = cap.parse::<u64>() {
            let lim = libc::rlimit { rlim_cur: n, rlim_max: n };
            unsafe { libc::setrlimit(libc::RLIMIT_DATA, &lim) };
        }
    }
    let mut rin = unsafe { std::fs::File::from_raw_fd(pin) };
    let mut rout = unsafe { std::fs::File::from_raw_fd(pout) };
    install_panic_recorder();
    loop {
        let mut hdr = [0u8; 4];
        if rin.read_exact(&mut hdr).is_err() {
            std::process::exit(0);
        }
        let n = u32::from_le_bytes(hdr) as usize;
        let mut buf = vec![0u8; n];
        if rin.read_exact(&mut buf).is_err() {
            std::process::exit(0);
        }
        let _ = take_last_panic();
        let r = std::panic::catch_unwind(std::panic::AssertUnwindSafe(|| handler(&buf)));
        match r {
            Ok(mut out) => {
                // a panic on a spawned task / blocking thread does not unwind into us: report it
                if let Some(p) = take_last_panic() {
                    let mut f = vec![b'P'];
                    f.extend_from_slice(p.as_bytes());
                    let _ = write_frame(&mut rout, &f);
                    std::process::exit(0);
                }
                let mut f = vec![b'O'];
                f.append(&mut out);
                if write_frame(&mut rout, &f).is_err() {
                    std::process::exit(0);
                }
            }
            Err(_) => {
                let p = take_last_panic().unwrap_or_else(|| "panic (no message)".into());
                let mut f = vec![b'P'];
                f.extend_from_slice(p.as_bytes());
                let _ = write_frame(&mut rout, &f);
                std::process::exit(0);
            }
        }
    }
}
