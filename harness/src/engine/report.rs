//! Evidence files, replay artefacts, known-findings attribution and the exit protocol.
//!
//! exit 0 = property held on everything explored (possibly with KNOWN-FINDING lines)
//! exit 1 = `VIOLATION property=<id> replay=<path>` for a violation no finding covers
//! exit 2 = the machinery failed (never a verdict)

use serde_json::{Value, json};
use std::collections::{BTreeMap, BTreeSet};
use std::path::PathBuf;
use std::time::Instant;

pub fn verif_dir() -> PathBuf {
    std::env::var_os("VERIF_DIR").map(PathBuf::from).unwrap_or_else(|| PathBuf::from("/verif"))
}

#[derive(Clone, Copy, PartialEq, Eq, Debug)]
pub enum Tier {
    Quick,
    Thorough,
}
impl Tier {
    pub fn name(self) -> &'static str {
        match self {
            Tier::Quick => "quick",
            Tier::Thorough => "thorough",
        }
    }
    pub fn pick<T>(self, q: T, t: T) -> T {
        match self {
            Tier::Quick => q,
            Tier::Thorough => t,
        }
    }
}

/// One failing case.
#[derive(Clone, Debug)]
pub struct Failure {
    /// short human-readable description of the case (script text, op sequence…)
    pub case: String,
    /// descriptor tags of the case (productions / alphabet symbols used) — what finding rules match on
    pub tags: Vec<String>,
    pub expected: String,
    pub observed: String,
    /// which sub-check / oracle failed
    pub oracle: String,
}

#[derive(Clone, Debug)]
pub struct Finding {
    pub id: String,
    pub property: String,
    pub description: String,
    /// all of these tags must be present on the failing case
    pub all: Vec<String>,
    /// none of these
    pub none: Vec<String>,
    /// optional: oracle name must equal
    pub oracle: Option<String>,
    /// optional: observed must contain this substring
    pub observed_contains: Option<String>,
    pub status: String, // "open" | "fixed"
    /// concrete cases with the wrong observation recorded when the finding was filed: a witness that
    /// now fails *differently* is a new violation, not this finding
    pub witnesses: Vec<(String, String)>,
}

pub fn load_findings(property: &str) -> Vec<Finding> {
    let p = verif_dir().join("known_findings.json");
    let Ok(txt) = std::fs::read_to_string(&p) else {
        return vec![];
    };
    let v: Value = match serde_json::from_str(&txt) {
        Ok(v) => v,
        Err(e) => {
            eprintln!("machinery: known_findings.json does not parse: {e}");
            std::process::exit(2);
        }
    };
    let mut out = vec![];
    for f in v["findings"].as_array().cloned().unwrap_or_default() {
        if f["property"].as_str() != Some(property) {
            continue;
        }
        let strs = |k: &str| -> Vec<String> {
            f["rule"][k]
                .as_array()
                .map(|a| a.iter().filter_map(|x| x.as_str().map(String::from)).collect())
                .unwrap_or_default()
        };
        out.push(Finding {
            id: f["id"].as_str().unwrap_or("?").to_string(),
            property: property.to_string(),
            description: f["description"].as_str().unwrap_or("").to_string(),
            all: strs("all"),
            none: strs("none"),
            oracle: f["rule"]["oracle"].as_str().map(String::from),
            observed_contains: f["rule"]["observed_contains"].as_str().map(String::from),
            status: f["status"].as_str().unwrap_or("open").to_string(),
            witnesses: f["witnesses"]
                .as_array()
                .map(|a| a.iter().map(|w| (w["case"].as_str().unwrap_or("").to_string(), w["observed"].as_str().unwrap_or("").to_string())).collect())
                .unwrap_or_default(),
        });
    }
    out
}

impl Finding {
    pub fn matches(&self, f: &Failure) -> bool {
        if self.status != "open" {
            return false; // a fixed entry suppresses nothing
        }
        if !self.all.iter().all(|t| f.tags.iter().any(|x| x == t)) {
            return false;
        }
        if self.none.iter().any(|t| f.tags.iter().any(|x| x == t)) {
            return false;
        }
        if let Some(o) = &self.oracle {
            if &f.oracle != o {
                return false;
            }
        }
        if let Some(s) = &self.observed_contains {
            if !f.observed.contains(s.as_str()) {
                return false;
            }
        }
        // the same input failing in a different way than recorded is not this finding
        if let Some((_, obs)) = self.witnesses.iter().find(|(c, _)| *c == f.case) {
            if !obs.is_empty() && *obs != f.observed {
                return false;
            }
        }
        true
    }
}

/// Pinned observations: for every finding, the failing (oracle, case) keys recorded on the repaired tree
/// with the hash of what was observed (`tools/pin_witnesses.py` writes known_witnesses/<P>-<tier>.txt).
/// A finding covers a failure only if the failure is the recorded one: a recorded case that now fails
/// differently, or (strict findings) a case that did not fail when the table was written, is a new
/// violation. obs = 0 marks an observation that differs between runs of the unchanged tree.
#[derive(Default)]
pub struct Pins {
    pub present: bool,
    /// a table borrowed from another tier: never strict
    pub overlay: bool,
    pub tables: BTreeMap<String, (bool, std::collections::HashMap<u64, u64>)>,
}

pub fn pin_key(f: &Failure) -> u64 {
    hash_str(&format!("{}\u{0}{}", f.oracle, f.case))
}

pub fn load_pins(property: &str, tier: Tier) -> Pins {
    let p = verif_dir().join("known_witnesses").join(format!("{property}-{}.txt", tier.name()));
    let mut overlay = false;
    let txt = match std::fs::read_to_string(&p) {
        Ok(t) => t,
        Err(_) => {
            // no table for this tier: the quick tier's table still pins the cases both tiers share
            // (as a non-strict overlay: unknown cases and findings fall back to the rules)
            overlay = true;
            match std::fs::read_to_string(verif_dir().join("known_witnesses").join(format!("{property}-quick.txt"))) {
                Ok(t) if tier != Tier::Quick => t,
                _ => return Pins::default(),
            }
        }
    };
    let mut pins = Pins { present: true, overlay, tables: BTreeMap::new() };
    let mut cur: Option<String> = None;
    for l in txt.lines() {
        if let Some(rest) = l.strip_prefix("# finding ") {
            let mut it = rest.split_whitespace();
            let id = it.next().unwrap_or("").to_string();
            let strict = it.next().map(|x| x == "strict=1").unwrap_or(false);
            pins.tables.insert(id.clone(), (strict, Default::default()));
            cur = Some(id);
        } else if let (Some(id), Some((a, b))) = (&cur, l.split_once(' ')) {
            if let (Ok(k), Ok(o)) = (u64::from_str_radix(a, 16), u64::from_str_radix(b, 16)) {
                pins.tables.get_mut(id).unwrap().1.insert(k, o);
            }
        }
    }
    pins
}

impl Pins {
    /// Does the table of finding `id` cover this failure? (Ok) or why not (Err).
    pub fn covers(&self, id: &str, f: &Failure) -> Result<(), &'static str> {
        if !self.present {
            return Ok(());
        }
        let Some((strict, map)) = self.tables.get(id) else {
            return if self.overlay { Ok(()) } else { Err("this finding did not occur when the witness table was written") };
        };
        let strict = &(*strict && !self.overlay);
        match map.get(&pin_key(f)) {
            Some(0) => Ok(()),
            Some(o) if *o == hash_str(&f.observed) => Ok(()),
            Some(_) => Err("the recorded case now fails differently"),
            None if *strict => Err("this case did not fail when the witness table was written"),
            None => Ok(()),
        }
    }
}

pub struct Report {
    pub property: String,
    pub tier: Tier,
    pub seed: i64,
    pub level: String,
    pub started: Instant,
    pub evaluations: u64,
    pub nontrivial: BTreeSet<String>,
    pub nontrivial_extra: u64,
    pub observations: BTreeSet<u64>,
    pub rule: String,
    pub samples: Vec<Value>,
    pub failures: Vec<Failure>,
    pub extra: BTreeMap<String, Value>,
    pub assumptions: Vec<String>,
    pub exhaustive: bool,
    pub caps_hit: Vec<String>,
    pub replay_mode: bool,
}

impl Report {
    pub fn new(property: &str, tier: Tier, level: &str) -> Self {
        let seed = std::env::var("VERIF_SEED").ok().and_then(|s| s.parse().ok()).unwrap_or(0);
        Self {
            property: property.to_string(),
            tier,
            seed,
            level: level.to_string(),
            started: Instant::now(),
            evaluations: 0,
            nontrivial: BTreeSet::new(),
            nontrivial_extra: 0,
            observations: BTreeSet::new(),
            rule: String::new(),
            samples: vec![],
            failures: vec![],
            extra: BTreeMap::new(),
            assumptions: vec![],
            exhaustive: true,
            caps_hit: vec![],
            replay_mode: false,
        }
    }

    pub fn sample(&mut self, v: impl Into<Value>) {
        if self.samples.len() < 12 {
            self.samples.push(v.into());
        }
    }
    pub fn observe(&mut self, s: &str) {
        self.observations.insert(hash_str(s));
    }
    pub fn set(&mut self, k: &str, v: impl Into<Value>) {
        self.extra.insert(k.to_string(), v.into());
    }
    pub fn add(&mut self, k: &str, n: u64) {
        let cur = self.extra.get(k).and_then(|v| v.as_u64()).unwrap_or(0);
        self.extra.insert(k.to_string(), json!(cur + n));
    }
    pub fn fail(&mut self, f: Failure) {
        self.failures.push(f);
    }
    pub fn cap(&mut self, what: &str) {
        self.exhaustive = false;
        self.caps_hit.push(what.to_string());
    }

    /// Attribute failures, write evidence + replay files, print protocol lines, and exit.
    pub fn finish(mut self) -> ! {
        let findings = load_findings(&self.property);
        let pin_out = std::env::var_os("VCHECK_PIN").map(PathBuf::from);
        let pins = if pin_out.is_some() { Pins::default() } else { load_pins(&self.property, self.tier) };
        let mut by_finding: BTreeMap<String, (String, Vec<Failure>)> = BTreeMap::new();
        let mut unattributed: Vec<Failure> = vec![];
        for mut f in std::mem::take(&mut self.failures) {
            // only the FIRST finding whose rule matches is considered, and its witness table must agree
            if let Some(k) = findings.iter().find(|k| k.matches(&f)) {
                match pins.covers(&k.id, &f) {
                    Ok(()) => by_finding.entry(k.id.clone()).or_insert_with(|| (k.description.clone(), vec![])).1.push(f),
                    Err(why) => {
                        f.observed = format!("[not the known finding {}: {why}]\n{}", k.id, f.observed);
                        f.tags.push(format!("differs-from:{}", k.id));
                        unattributed.push(f);
                    }
                }
            } else {
                unattributed.push(f);
            }
        }
        if let Some(dir) = &pin_out {
            // maintenance mode (tools/pin_witnesses.py): dump what each finding covered in this run
            let _ = std::fs::create_dir_all(dir);
            let mut txt = String::new();
            for (id, (_, fs)) in &by_finding {
                for f in fs {
                    txt.push_str(&format!("{id} {:016x} {:016x}\n", pin_key(f), hash_str(&f.observed)));
                }
            }
            let _ = std::fs::write(dir.join(format!("{}-{}.raw", self.property, self.tier.name())), txt);
        }
        for (id, (desc, fs)) in &by_finding {
            println!(
                "KNOWN-FINDING: property={} {} [{}] ({} cases, e.g. {})",
                self.property,
                desc,
                id,
                fs.len(),
                truncate(&fs[0].case.replace('\n', "\\n"), 120)
            );
        }
        let replay_dir = verif_dir().join("replay");
        let _ = std::fs::create_dir_all(&replay_dir);
        // the artefacts of this property and tier are those of THIS run
        if !self.replay_mode {
            let prefix = format!("{}-{}-", self.property, self.tier.name());
            if let Ok(rd) = std::fs::read_dir(&replay_dir) {
                for e in rd.flatten() {
                    let n = e.file_name().to_string_lossy().into_owned();
                    if n.starts_with(&prefix) && n.ends_with(".json") {
                        let _ = std::fs::remove_file(e.path());
                    }
                }
            }
        }
        let mut violation_lines = vec![];
        // group unattributed failures by (oracle, tags) so one defect gives one line, smallest case first
        let mut groups: BTreeMap<String, Vec<Failure>> = BTreeMap::new();
        // cases the pool did not run any more (crash budget exhausted) are counted, not listed one by one
        let not_run = unattributed.iter().filter(|f| f.observed.contains("NOT RUN:")).count();
        if not_run > 0 {
            eprintln!("  {not_run} further cases were not run: the crash budget of the run was exhausted (the search is not exhaustive)");
            self.cap("crash budget exhausted: remaining cases not run");
        }
        for f in unattributed.iter().filter(|f| not_run == unattributed.len() || !f.observed.contains("NOT RUN:")).cloned() {
            let norm: String = f.observed.chars().take(80).map(|c| if c.is_ascii_digit() { 'N' } else { c }).collect();
            let key = format!("{}|{}|{}", f.oracle, f.tags.join(","), norm);
            groups.entry(key).or_default().push(f);
        }
        let mut gi = 0;
        for (key, fs) in &groups {
            if gi >= 40 {
                break;
            }
            gi += 1;
            let f = fs.iter().min_by_key(|f| f.case.len()).unwrap();
            let name = format!("{}-{}-{:016x}.json", self.property, self.tier.name(), hash_str(&format!("{key}{}", f.case)));
            let path = replay_dir.join(&name);
            let body = json!({
                "property": self.property, "tier": self.tier.name(), "oracle": f.oracle, "tags": f.tags,
                "case": f.case, "expected": f.expected, "observed": f.observed,
                "group_size": fs.len(),
                "other_cases": fs.iter().take(20).map(|x| x.case.clone()).collect::<Vec<_>>(),
            });
            let _ = std::fs::write(&path, serde_json::to_string_pretty(&body).unwrap());
            violation_lines.push(format!("VIOLATION property={} replay={}", self.property, path.display()));
            eprintln!(
                "  violation [{}] tags={:?} ({} cases)\n    case: {}\n    expected: {}\n    observed: {}",
                f.oracle,
                f.tags,
                fs.len(),
                truncate(&f.case.replace('\n', "\\n"), 300),
                truncate(&f.expected.replace('\n', "\\n"), 300),
                truncate(&f.observed.replace('\n', "\\n"), 300)
            );
        }
        // cases that were not run are reported by the cap above, not counted as violations of their own
        let nviol: usize = groups.values().map(|g| g.len()).sum();
        if std::env::var_os("VCHECK_DUMP_KNOWN").is_some() {
            // maintenance aid: what each finding covered in this run (to review a rule's breadth)
            let mut txt = String::new();
            for (id, (_, fs)) in &by_finding {
                for f in fs {
                    txt.push_str(&json!({"finding": id, "oracle": f.oracle, "tags": f.tags, "case": f.case, "expected": f.expected, "observed": f.observed}).to_string());
                    txt.push('\n');
                }
            }
            let _ = std::fs::write(replay_dir.join(format!("{}-{}-known.jsonl", self.property, self.tier.name())), txt);
        }
        if std::env::var_os("VCHECK_DUMP").is_some() {
            let mut txt = String::new();
            for f in &unattributed {
                txt.push_str(&json!({"oracle": f.oracle, "tags": f.tags, "case": f.case, "expected": f.expected, "observed": f.observed}).to_string());
                txt.push('\n');
            }
            let _ = std::fs::write(replay_dir.join(format!("{}-{}-all.jsonl", self.property, self.tier.name())), txt);
        }
        if !self.replay_mode {
            self.write_evidence(nviol, &by_finding);
        }
        for l in &violation_lines {
            println!("{l}");
        }
        println!(
            "{} {} tier={} evaluations={} distinct_nontrivial={} observations={} known_finding_cases={} violations={} wall={:.1}s",
            if nviol == 0 { "PASS" } else { "FAIL" },
            self.property,
            self.tier.name(),
            self.evaluations,
            self.nontrivial.len() as u64 + self.nontrivial_extra,
            self.observations.len(),
            by_finding.values().map(|v| v.1.len()).sum::<usize>(),
            nviol,
            self.started.elapsed().as_secs_f64()
        );
        crate::engine::procs::cleanup_scratch();
        std::process::exit(if nviol == 0 { 0 } else { 1 });
    }

    fn write_evidence(&self, nviol: usize, by_finding: &BTreeMap<String, (String, Vec<Failure>)>) {
        let mut cov = serde_json::Map::new();
        cov.insert("evaluations".into(), json!(self.evaluations));
        cov.insert("distinct_nontrivial".into(), json!(self.nontrivial.len() as u64 + self.nontrivial_extra));
        cov.insert("distinct_observations".into(), json!(self.observations.len()));
        cov.insert("rule".into(), json!(self.rule));
        cov.insert("samples".into(), json!(self.samples));
        cov.insert("exhaustive".into(), json!(self.exhaustive));
        cov.insert("caps_hit".into(), json!(self.caps_hit));
        cov.insert("crashes_not_reproduced_on_fresh_worker".into(), json!(crate::engine::pool::UNCONFIRMED_CRASHES.load(std::sync::atomic::Ordering::SeqCst)));
        let kf: Vec<Value> = by_finding
            .iter()
            .map(|(id, (d, fs))| json!({"id": id, "description": d, "cases": fs.len(), "example": fs[0].case}))
            .collect();
        cov.insert("known_findings_hit".into(), json!(kf));
        for (k, v) in &self.extra {
            cov.insert(k.clone(), v.clone());
        }
        let ev = json!({
            "property_id": self.property,
            "tier": self.tier.name(),
            "seed": self.seed,
            "level": self.level,
            "coverage": Value::Object(cov),
            "assumptions": self.assumptions,
            "wall_s": self.started.elapsed().as_secs_f64(),
            "violations": nviol,
        });
        let dir = verif_dir().join("evidence");
        let _ = std::fs::create_dir_all(&dir);
        let path = dir.join(format!("{}.json", self.property));
        if let Err(e) = std::fs::write(&path, serde_json::to_string_pretty(&ev).unwrap() + "\n") {
            eprintln!("machinery: cannot write evidence {}: {e}", path.display());
            std::process::exit(2);
        }
    }
}

pub fn truncate(s: &str, n: usize) -> String {
    if s.chars().count() <= n {
        s.to_string()
    } else {
        let t: String = s.chars().take(n).collect();
        format!("{t}…")
    }
}

pub fn hash_str(s: &str) -> u64 {
    // FNV-1a: deterministic across runs (std's hasher is randomly keyed)
    let mut h: u64 = 0xcbf29ce484222325;
    for b in s.as_bytes() {
        h ^= *b as u64;
        h = h.wrapping_mul(0x100000001b3);
    }
    h
}

pub fn machinery_fail(msg: &str) -> ! {
    eprintln!("machinery failure: {msg}");
    crate::engine::procs::cleanup_scratch();
    std::process::exit(2);
}
