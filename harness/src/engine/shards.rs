//! Exhaustive enumeration of all strings over an alphabet up to a length bound, distributed as
//! prefix shards; a shard whose worker dies or times out is split (prefix + one symbol) until the
//! offending single string is isolated.

use super::pool::{self, Outcome, PoolCfg};
use serde_json::{Value, json};

#[derive(Clone, Debug)]
pub struct Shard {
    pub prefix: Vec<usize>,
    pub total_len: usize,
}

impl Shard {
    pub fn to_case(&self, alphabet: &[&str], extra: &Value) -> Vec<u8> {
        json!({"a": alphabet, "p": self.prefix, "n": self.total_len, "x": extra}).to_string().into_bytes()
    }
    pub fn text(&self, alphabet: &[&str]) -> String {
        self.prefix.iter().map(|i| alphabet[*i]).collect()
    }
}

/// Worker side: decode a shard case and call `f` for every string in it.
pub fn for_each_in_case(case: &[u8], f: &mut dyn FnMut(&str)) -> Value {
    let v: Value = serde_json::from_slice(case).expect("shard json");
    let alphabet: Vec<String> = v["a"].as_array().unwrap().iter().map(|x| x.as_str().unwrap().to_string()).collect();
    let alpha: Vec<&str> = alphabet.iter().map(|s| s.as_str()).collect();
    let prefix: String = v["p"].as_array().unwrap().iter().map(|i| alpha[i.as_u64().unwrap() as usize]).collect();
    let plen = v["p"].as_array().unwrap().len();
    let n = v["n"].as_u64().unwrap() as usize;
    super::enumerate::for_each_suffix(&alpha, &prefix, n - plen, f);
    v["x"].clone()
}

pub struct ShardedResult {
    pub ok: Vec<(Shard, Vec<u8>)>,
    /// single strings whose evaluation crashed the worker (abort, signal, timeout)
    pub crashes: Vec<(String, Outcome)>,
    pub shards_run: usize,
}

pub fn run_sharded(cfg: &PoolCfg, alphabet: &[&str], max_len: usize, prefix_len: usize, extra: &Value) -> ShardedResult {
    let k = alphabet.len();
    let mut pending: Vec<Shard> = vec![];
    for n in 0..=max_len {
        let pl = prefix_len.min(n);
        for idx in super::enumerate::product(&vec![k; pl]) {
            pending.push(Shard { prefix: idx, total_len: n });
        }
    }
    let mut res = ShardedResult { ok: vec![], crashes: vec![], shards_run: 0 };
    while !pending.is_empty() {
        let cases: Vec<Vec<u8>> = pending.iter().map(|s| s.to_case(alphabet, extra)).collect();
        res.shards_run += cases.len();
        let outs = pool::run(cfg, &cases);
        let mut next = vec![];
        for (sh, o) in pending.into_iter().zip(outs) {
            match o {
                Outcome::Ok(b) => res.ok.push((sh, b)),
                other => {
                    if sh.prefix.len() >= sh.total_len {
                        res.crashes.push((sh.text(alphabet), other));
                    } else {
                        for i in 0..k {
                            let mut p = sh.prefix.clone();
                            p.push(i);
                            next.push(Shard { prefix: p, total_len: sh.total_len });
                        }
                    }
                }
            }
        }
        pending = next;
    }
    res
}
