//! In-process execution of brush: a fresh `brush_core::Shell` per case (public builder API), stdout
//! and stderr bound to files, stdin /dev/null, harness builtins registered through the public API.

use brush_core::builtins::{ContentOptions, ContentType, Registration};
use brush_core::{CommandArg, ExecutionContext, ExecutionResult, Shell, ShellVariable};
use futures::future::BoxFuture;
use std::io::Write;
use std::path::{Path, PathBuf};

pub type Sh = Shell<brush_core::extensions::DefaultShellExtensions>;
type SE = brush_core::extensions::DefaultShellExtensions;

pub struct RunOut {
    pub stdout: Vec<u8>,
    pub stderr: Vec<u8>,
    pub status: u8,
    pub flow: &'static str,
    pub err: Option<String>,
}

impl RunOut {
    pub fn out(&self) -> String {
        String::from_utf8_lossy(&self.stdout).into_owned()
    }
}

fn no_content(_: &str, _: ContentType, _: &ContentOptions) -> Result<String, brush_core::Error> {
    Ok(String::new())
}

fn arg_strings(args: Vec<CommandArg>) -> Vec<String> {
    args.into_iter().skip(1).map(|a| a.to_string()).collect()
}

fn vargs_exec(ctx: ExecutionContext<'_, SE>, args: Vec<CommandArg>) -> BoxFuture<'_, Result<ExecutionResult, brush_core::Error>> {
    Box::pin(async move {
        let args = arg_strings(args);
        let mut buf = Vec::new();
        buf.extend_from_slice(args.len().to_string().as_bytes());
        buf.push(0);
        for a in &args {
            buf.extend_from_slice(a.as_bytes());
            buf.push(0);
        }
        buf.push(b'\n');
        let mut out = ctx.stdout();
        let _ = out.write_all(&buf);
        let _ = out.flush();
        Ok(ExecutionResult::success())
    })
}

pub fn reg(f: brush_core::builtins::CommandExecuteFunc<SE>) -> Registration<SE> {
    Registration { execute_func: f, content_func: no_content, disabled: false, special_builtin: false, declaration_builtin: false }
}

pub struct Inproc {
    pub rt: tokio::runtime::Runtime,
    pub root: PathBuf,
    pub helper_dir: PathBuf,
    counter: u64,
}

#[derive(Default, Clone)]
pub struct ShellCfg {
    pub extra_builtins: Vec<(String, Registration<SE>)>,
    pub interactive: bool,
    pub no_vargs_builtin: bool,
}

impl Inproc {
    pub fn new() -> Self {
        let rt = tokio::runtime::Builder::new_multi_thread().worker_threads(2).enable_all().build().expect("tokio runtime");
        let root = crate::engine::procs::scratch_root();
        let helper_dir = std::env::var_os("VCHECK_HELPERS").map(PathBuf::from).unwrap_or_else(crate::engine::procs::helper_dir);
        Self { rt, root, helper_dir, counter: 0 }
    }

    /// A fresh, empty scratch working directory for one case.
    pub fn fresh_dir(&mut self) -> PathBuf {
        self.counter += 1;
        let d = self.root.join("w");
        let _ = std::fs::remove_dir_all(&d);
        std::fs::create_dir_all(&d).expect("mkdir");
        d
    }

    pub async fn build_shell(&self, cwd: &Path, cfg: &ShellCfg) -> Sh {
        let mut b = Shell::builder()
            .profile(brush_core::ProfileLoadBehavior::Skip)
            .rc(brush_core::RcLoadBehavior::Skip)
            .do_not_inherit_env(true)
            .interactive(cfg.interactive)
            .working_dir(cwd.to_path_buf())
            .shell_name("brush".to_string())
            .builtins(brush_builtins::default_builtins(brush_builtins::BuiltinSet::BashMode));
        if !cfg.no_vargs_builtin {
            b = b.builtin("vargs", reg(vargs_exec));
        }
        for (n, r) in &cfg.extra_builtins {
            b = b.builtin(n.clone(), r.clone());
        }
        let mut sh = b.build().await.expect("build shell");
        let mut set = |k: &str, v: String| {
            let mut var = ShellVariable::new(v);
            var.export();
            let _ = sh.env_mut().set_global(k, var);
        };
        set("PATH", self.helper_dir.to_string_lossy().into_owned());
        set("HOME", cwd.to_string_lossy().into_owned());
        set("LC_ALL", "C.utf8".to_string());
        set("TZ", "UTC".to_string());
        set("VCHECK_HELPERS", self.helper_dir.to_string_lossy().into_owned());
        sh
    }

    /// Binds the shell's own (persistent) descriptors 0/1/2 to /dev/null and two capture files, the way a
    /// real process would inherit them; `exec` redirections then act on the same table.
    pub fn bind_stdio(&self, sh: &mut Sh) {
        let outp = self.root.join("stdout");
        let errp = self.root.join("stderr");
        // fresh inodes: a straggler of an earlier run (unwaited process substitution, background job) keeps
        // writing to the unlinked old file instead of into this run's capture
        let _ = std::fs::remove_file(&outp);
        let _ = std::fs::remove_file(&errp);
        let fout = std::fs::File::create(&outp).expect("create stdout file");
        let ferr = std::fs::File::create(&errp).expect("create stderr file");
        let fin = std::fs::File::open("/dev/null").expect("open /dev/null");
        let of = sh.open_files_mut();
        of.set_fd(0, fin.into());
        of.set_fd(1, fout.into());
        of.set_fd(2, ferr.into());
    }

    fn collect(&self, status: u8, flow: &'static str, err: Option<String>) -> RunOut {
        RunOut {
            stdout: std::fs::read(self.root.join("stdout")).unwrap_or_default(),
            stderr: std::fs::read(self.root.join("stderr")).unwrap_or_default(),
            status,
            flow,
            err,
        }
    }

    /// Runs `script` on `sh` (as `run_string`) with stdout/stderr captured into files.
    pub async fn run_on(&self, sh: &mut Sh, script: &str) -> RunOut {
        self.bind_stdio(sh);
        let params = sh.default_exec_params();
        let r = sh.run_string(script.to_string(), &brush_core::SourceInfo::default(), &params).await;
        drop(params);
        let (status, flow, err) = match r {
            Ok(res) => {
                let flow = match res.next_control_flow {
                    brush_core::ExecutionControlFlow::Normal => "normal",
                    brush_core::ExecutionControlFlow::BreakLoop { .. } => "break",
                    brush_core::ExecutionControlFlow::ContinueLoop { .. } => "continue",
                    brush_core::ExecutionControlFlow::ReturnFromFunctionOrScript => "return",
                    brush_core::ExecutionControlFlow::ExitShell => "exit",
                };
                (u8::from(res.exit_code), flow, None)
            }
            Err(e) => (255, "error", Some(format!("{e}"))),
        };
        self.collect(status, flow, err)
    }

    /// Runs a script *file* the way the `brush` binary does (`Shell::run_script`, which also runs the
    /// EXIT trap), then reports `last_exit_status()` exactly as brush-shell's entry point does.
    pub async fn run_file_on(&self, sh: &mut Sh, path: &Path, args: &[String]) -> RunOut {
        self.bind_stdio(sh);
        let r = sh.run_script(path, args.iter()).await;
        match r {
            Ok(_) => {
                let st = sh.last_exit_status();
                self.collect(st, "file", None)
            }
            Err(e) => {
                let mut stderr = sh.stderr();
                let _ = sh.display_error(&mut stderr, &e);
                self.collect(1, "file-error", Some(format!("{e}")))
            }
        }
    }

    /// `-c` mode through the same public entry point the binary uses.
    pub async fn run_dash_c_on(&self, sh: &mut Sh, script: &str) -> RunOut {
        self.bind_stdio(sh);
        let r = sh.run_dash_c_command(script.to_string()).await;
        match r {
            Ok(_) => {
                let st = sh.last_exit_status();
                self.collect(st, "dash-c", None)
            }
            Err(e) => {
                let mut stderr = sh.stderr();
                let _ = sh.display_error(&mut stderr, &e);
                self.collect(1, "dash-c-error", Some(format!("{e}")))
            }
        }
    }

    /// Convenience: fresh shell in a fresh dir, optional setup, run, return output.
    pub fn run_script(&mut self, script: &str, cfg: &ShellCfg, setup: impl FnOnce(&mut Sh)) -> RunOut {
        let dir = self.fresh_dir();
        let this: &Inproc = self;
        this.rt.block_on(async {
            let mut sh = this.build_shell(&dir, cfg).await;
            setup(&mut sh);
            this.run_on(&mut sh, script).await
        })
    }
}

pub fn set_var(sh: &mut Sh, name: &str, value: &str) {
    let _ = sh.env_mut().set_global(name, ShellVariable::new(value.to_string()));
}

pub fn set_array(sh: &mut Sh, name: &str, values: &[&str]) {
    let _ = sh.env_mut().set_global(name, ShellVariable::new(brush_core::ShellValue::indexed_array_from_strs(values)));
}

pub fn get_var(sh: &Sh, name: &str) -> Option<String> {
    sh.env_str(name).map(|c| c.into_owned())
}
