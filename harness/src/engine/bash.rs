//! bash 5.2 as a live oracle (never cached): per-script processes and batched `eval` drivers.

use super::procs::{self, ProcOut, ProcSpec};

pub const BASH: &str = "/usr/bin/bash";

/// Definition of `vargs` for bash, byte-identical in output to the brush-side builtin / external.
pub const BASH_VARGS: &str = "vargs() { printf '%s\\0' \"$#\" \"$@\"; echo; }\n";

pub fn sq(s: &str) -> String {
    format!("'{}'", s.replace('\'', "'\\''"))
}

/// One process per script, run as a script *file* (`bash --norc --noprofile ./s.sh`).
pub fn spec_file(shell: &str, script: &str, timeout_ms: u64) -> ProcSpec {
    ProcSpec {
        argv: vec![shell.to_string(), "--norc".into(), "--noprofile".into(), "./s.sh".into()],
        files: vec![("s.sh".into(), script.as_bytes().to_vec())],
        timeout_ms,
        ..Default::default()
    }
}

pub fn spec_dash_c(shell: &str, script: &str, timeout_ms: u64) -> ProcSpec {
    ProcSpec {
        argv: vec![shell.to_string(), "--norc".into(), "--noprofile".into(), "-c".into(), script.to_string()],
        timeout_ms,
        ..Default::default()
    }
}

pub fn spec_stdin(shell: &str, script: &str, timeout_ms: u64) -> ProcSpec {
    ProcSpec {
        argv: vec![shell.to_string(), "--norc".into(), "--noprofile".into()],
        files: vec![("stdin.sh".into(), script.as_bytes().to_vec())],
        stdin_file: Some("stdin.sh".into()),
        timeout_ms,
        ..Default::default()
    }
}

pub fn run_files(shell: &str, scripts: &[String], timeout_ms: u64) -> Vec<ProcOut> {
    let specs: Vec<ProcSpec> = scripts.iter().map(|s| spec_file(shell, s, timeout_ms)).collect();
    procs::run_many(&specs, procs_par())
}

pub fn procs_par() -> usize {
    super::pool::ncpu()
}

#[derive(Clone, Debug, PartialEq, Eq)]
pub struct BatchRec {
    pub status: i32,
    pub stdout: Vec<u8>,
    pub stderr_nonempty: bool,
}

/// Evaluate many cases in few bash processes. Each case is `eval`-ed from a single-quoted string in
/// its own subshell; records are matched by id, never by position. A case whose record is missing
/// (it killed the driver) is returned as None.
pub fn batch_eval(prelude: &str, cases: &[String], files: &[(String, Vec<u8>)], batch: usize) -> Vec<Option<BatchRec>> {
    let n = cases.len();
    let mut specs = vec![];
    let mut ranges = vec![];
    let mut i = 0;
    while i < n {
        let j = (i + batch).min(n);
        let mut s = String::new();
        s.push_str("E=$PWD/../__stderr\n");
        s.push_str(BASH_VARGS);
        s.push_str(prelude);
        s.push('\n');
        for k in i..j {
            s.push_str(&format!(
                "printf '\\035\\035%d\\035' {k}; ( eval {} ) 2>\"$E\"; __s=$?; __e=0; [ -s \"$E\" ] && __e=1; printf '\\035\\036%d %d\\035\\035' $__s $__e\n",
                sq(&cases[k])
            ));
        }
        let mut spec = spec_file(BASH, &s, 60_000 + 20 * (j - i) as u64);
        spec.files.extend(files.iter().cloned());
        specs.push(spec);
        ranges.push((i, j));
        i = j;
    }
    let outs = procs::run_many(&specs, procs_par());
    let mut res: Vec<Option<BatchRec>> = vec![None; n];
    for o in outs.iter() {
        parse_records(&o.stdout, &mut res);
    }
    res
}

fn find(hay: &[u8], needle: &[u8], from: usize) -> Option<usize> {
    if from > hay.len() {
        return None;
    }
    hay[from..].windows(needle.len()).position(|w| w == needle).map(|p| p + from)
}

fn parse_records(out: &[u8], res: &mut [Option<BatchRec>]) {
    let mut pos = 0;
    while let Some(s) = find(out, b"\x1d\x1d", pos) {
        let Some(idend) = find(out, b"\x1d", s + 2) else { break };
        let Ok(id) = std::str::from_utf8(&out[s + 2..idend]).unwrap_or("x").parse::<usize>() else {
            pos = s + 2;
            continue;
        };
        let body_start = idend + 1;
        let Some(tail) = find(out, b"\x1d\x1e", body_start) else { break };
        let Some(end) = find(out, b"\x1d\x1d", tail + 2) else { break };
        let meta = String::from_utf8_lossy(&out[tail + 2..end]).into_owned();
        let mut it = meta.split(' ');
        let status = it.next().and_then(|x| x.parse().ok()).unwrap_or(-1);
        let e = it.next().and_then(|x| x.parse::<i32>().ok()).unwrap_or(0);
        if id < res.len() {
            res[id] = Some(BatchRec { status, stdout: out[body_start..tail].to_vec(), stderr_nonempty: e != 0 });
        }
        pos = end + 2;
    }
}
