//! C01 — no input crashes the shell: parse, expand and run always end in a status.
//! (a) all strings over a 31-symbol alphabet up to length 4/5 through every parser entry point;
//! (b)-(d) the construct corpus (templates x boundary values, token mutations, nestings to depth 64)
//! executed in-process through the public script-file and -c entry points and, for the templates, by
//! the real binary on all three front-ends; (f) completion and prompt expansion on every line and cursor.

use super::common;
use crate::corpus::{self, CorpusCase};
use crate::engine::inproc::{self, Inproc, ShellCfg};
use crate::engine::pool::{self, Handler, Outcome, PoolCfg};
use crate::engine::report::{Failure, Report, Tier};
use crate::engine::{bash, procs, shards};
use serde_json::{Value, json};

pub const SIGMA1: &[&str] = &[
    "a", "1", " ", "\n", ";", "&", "|", "(", ")", "{", "}", "<", ">", "$", "\"", "'", "`", "\\", "#", "=", "[", "]", "*", "?", "!", "~", "-", ":", ",", ".", "é", "😀",
];

fn parse_entry_points(s: &str, fails: &mut Vec<Value>, counts: &mut [u64; 2]) {
    use brush_parser::{TokenizerOptions, tokenize_str_with_options, uncached_tokenize_str};
    let mut guard = |name: &str, f: &mut dyn FnMut()| {
        counts[0] += 1;
        let r = std::panic::catch_unwind(std::panic::AssertUnwindSafe(|| f()));
        if r.is_err() {
            let p = pool::take_last_panic().unwrap_or_default();
            if fails.len() < 100 {
                fails.push(json!({"input": s, "entry": name, "panic": p}));
            }
        }
    };
    let optsets = [
        TokenizerOptions { enable_extended_globbing: true, posix_mode: false, sh_mode: false },
        TokenizerOptions { enable_extended_globbing: false, posix_mode: true, sh_mode: false },
        TokenizerOptions { enable_extended_globbing: false, posix_mode: true, sh_mode: true },
    ];
    let mut words: Vec<String> = vec![];
    for (k, o) in optsets.iter().enumerate() {
        guard(&format!("tokenize[{k}]"), &mut || {
            if let Ok(toks) = uncached_tokenize_str(s, o) {
                if k == 0 {
                    for t in toks {
                        if let brush_parser::Token::Word(w, _) = t {
                            words.push(w);
                        }
                    }
                }
            }
            let _ = tokenize_str_with_options(s, o);
        });
    }
    let popts = brush_parser::ParserOptions::default();
    let parsed_ok = std::cell::Cell::new(false);
    guard("parse_program", &mut || {
        let mut rd = std::io::BufReader::new(s.as_bytes());
        let mut p = brush_parser::Parser::new(&mut rd, &popts);
        if p.parse_program().is_ok() {
            parsed_ok.set(true);
        }
    });
    words.push(s.to_string());
    for w in &words {
        guard("word::parse", &mut || {
            let _ = brush_parser::word::parse(w, &popts);
        });
        guard("parse_brace_expansions", &mut || {
            let _ = brush_parser::word::parse_brace_expansions(w, &popts);
        });
        guard("arithmetic::parse", &mut || {
            let _ = brush_parser::arithmetic::parse(w);
        });
        guard("pattern_to_regex_str", &mut || {
            let _ = brush_parser::pattern::pattern_to_regex_str(w, true);
            let _ = brush_parser::pattern::pattern_to_regex_str(w, false);
        });
        guard("prompt::parse", &mut || {
            let _ = brush_parser::prompt::parse(w);
        });
        guard("parse_parameter", &mut || {
            let _ = brush_parser::word::parse_parameter(w, &popts);
        });
        guard("parse_heredoc", &mut || {
            let _ = brush_parser::word::parse_heredoc(w, &popts);
        });
    }
    drop(guard);
    if parsed_ok.get() {
        counts[1] += 1;
    }
}

pub fn worker() -> Handler {
    let ip = Inproc::new();
    let dir = ip.root.join("w");
    let _ = std::fs::create_dir_all(&dir);
    Box::new(move |case: &[u8]| {
        let v: Value = serde_json::from_slice(case).unwrap();
        let mut fails: Vec<Value> = vec![];
        let mut counts = [0u64; 2];
        let mut n = 0u64;
        let mode = v["x"]["mode"].as_str().or(v["mode"].as_str()).unwrap_or("parse").to_string();
        let mut one = |s: &str| {
            n += 1;
            if mode == "parse" {
                parse_entry_points(s, &mut fails, &mut counts);
            } else {
                // line-editor entry points: completion and prompt expansion at every cursor
                let ipr: &Inproc = &ip;
                let r = std::panic::catch_unwind(std::panic::AssertUnwindSafe(|| {
                    ipr.rt.block_on(async {
                        let mut sh = ipr.build_shell(&dir, &ShellCfg::default()).await;
                        ipr.bind_stdio(&mut sh);
                        for c in super::c19::cursors(s) {
                            counts[0] += 1;
                            let _ = sh.complete(s, c).await;
                        }
                        inproc::set_var(&mut sh, "PS1", s);
                        inproc::set_var(&mut sh, "vv", s);
                        counts[0] += 2;
                        let _ = sh.compose_prompt().await;
                        let params = sh.default_exec_params();
                        let _ = sh.basic_expand_string(&params, "${vv@P}").await;
                    })
                }));
                if r.is_err() {
                    let p = pool::take_last_panic().unwrap_or_default();
                    if fails.len() < 100 {
                        fails.push(json!({"input": s, "entry": "complete/prompt", "panic": p}));
                    }
                }
            }
        };
        if v.get("lines").is_some() {
            for l in v["lines"].as_array().unwrap() {
                one(l.as_str().unwrap());
            }
        } else {
            shards::for_each_in_case(case, &mut one);
        }
        json!({"n": n, "calls": counts[0], "parsed_ok": counts[1], "fails": fails}).to_string().into_bytes()
    })
}


/// (g) Values that are re-interpreted as code: arithmetic evaluates the *value* of every name it reads,
/// namerefs and aliases are followed transitively. Every assignment of two values from a small alphabet of
/// self- and cross-referencing expressions to the names a and b, under four attribute set-ups, read through
/// every arithmetic entry point. Cycles must end in a diagnostic, not in native-stack exhaustion.
pub fn reinterpretation_cases() -> Vec<CorpusCase> {
    const VALS: &[&str] = &["", "1", "a", "b", "a+1", "b[a]", "a[b]", "b[0]", "a[a]", "$a", "b[b[a]]", "x=a", "a++", "b[a]+b[a]", "a?b:a", "a,b"];
    const SETUPS: &[(&str, &str)] = &[
        ("plain", "a=⟦A⟧; b=⟦B⟧"),
        ("integer", "declare -i a b; a=⟦A⟧; b=⟦B⟧"),
        ("array", "a=⟦A⟧; b=(⟦B⟧ ⟦A⟧)"),
        ("nameref", "declare -n a=⟦A⟧ b=⟦B⟧"),
    ];
    const READS: &[(&str, &str)] = &[
        ("arith-exp", "echo $((a))"),
        ("arith-cmd", "((a)); echo $?"),
        ("let", "let a; echo $?"),
        ("subscript-read", "x=(1 2 3); echo ${x[a]}"),
        ("subscript-write", "x=(1 2); x[a]=5; echo ${x[@]}"),
        ("substring", "v=hello; echo ${v:a:b}"),
        ("integer-assign", "declare -i z; z=a; echo $z"),
        ("test-eq", "[[ a -eq b ]]; echo $?"),
        ("arith-for", "for ((i=a; i<1; i++)); do break; done; echo $?"),
        ("indirect", "echo ${!a} ${!b}"),
        ("unset-elem", "x=(1 2); unset 'x[a]'; echo ${x[@]}"),
        ("printf-v", "x=(1 2); printf -v 'x[a]' %s q; echo ${x[@]}"),
        ("test-v", "x=(1 2); test -v 'x[a]'; echo $?"),
        ("read-elem", "x=(1 2); read 'x[a]' <<<7; echo ${x[@]}"),
        ("plain-read", "echo $a $b ${a[0]} ${b[@]}"),
        ("compound-assign", "((a+=b)); echo $? $a"),
    ];
    let mut v = vec![];
    for (sn, st) in SETUPS {
        for va in VALS {
            for vb in VALS {
                if *sn == "nameref" && (va.is_empty() || vb.is_empty()) {
                    continue;
                }
                let q = |x: &str| format!("'{x}'");
                let setup = st.replace("⟦A⟧", &q(va)).replace("⟦B⟧", &q(vb));
                for (rn, rd) in READS {
                    v.push(CorpusCase { text: format!("{setup} 2>/dev/null\n{rd}\necho end"), tags: vec!["reinterpret".into(), format!("setup:{sn}"), format!("read:{rn}")] });
                }
            }
        }
    }
    // aliases: every pair of bodies for the aliases a and b
    const ABODY: &[&str] = &["a", "b", "a b", "echo a", "b;a", "a ", "b "];
    for x in ABODY {
        for y in ABODY {
            v.push(CorpusCase { text: format!("shopt -s expand_aliases\nalias a='{x}' b='{y}'\na\necho end"), tags: vec!["reinterpret".into(), "setup:alias".into()] });
        }
    }
    v
}

/// (i) Payload sizes on both sides of the kernel's pipe and page boundaries through every construct that
/// moves a value through a descriptor: here-strings, here-documents, process substitutions, pipelines from
/// builtins, command substitutions. A size must never decide whether the shell finishes.
pub fn size_cases() -> Vec<CorpusCase> {
    const SIZES: &[usize] = &[4095, 4096, 4097, 8192, 16384, 65535, 65536, 65537, 131072];
    const MOVERS: &[(&str, &str)] = &[
        ("herestring-external", "vcons <<<\"$x\""),
        ("herestring-pipeline", "vcat <<<\"$x\" | vcons"),
        ("herestring-read", "read -r -d '' y <<<\"$x\"; echo ${#y}"),
        ("herestring-function", "f() { vcons; }; f <<<\"$x\""),
        ("herestring-builtin-loop", "while IFS= read -r l; do :; done <<<\"$x\"; echo done"),
        ("heredoc-external", "vcons <<EOF\n$x\nEOF"),
        ("heredoc-quoted", "vcons <<'EOF'\n@BODY@\nEOF"),
        ("procsub-in", "vcons < <(printf '%s' \"$x\")"),
        ("builtin-pipeline", "printf '%s' \"$x\" | vcons"),
        ("cmdsub-builtin", "y=$(printf '%s' \"$x\"); echo ${#y}"),
        ("cmdsub-echo", "y=$(echo \"$x\"); echo ${#y}"),
        ("length", "echo ${#x}"),
    ];
    let mut v = vec![];
    for n in SIZES {
        for (mn, m) in MOVERS {
            let text = if m.contains("@BODY@") {
                // a literal body of exactly n bytes: lines of 63 characters + newline
                let mut body = String::new();
                while body.len() + 64 <= *n {
                    body.push_str(&"b".repeat(63));
                    body.push('\n');
                }
                body.push_str(&"c".repeat(*n - body.len()));
                m.replace("@BODY@", &body)
            } else {
                format!("x=$(vprod {n}; echo x); x=${{x%x}}\n{m}")
            };
            v.push(CorpusCase { text, tags: vec!["sizes".into(), format!("size:{n}"), format!("mover:{mn}")] });
        }
    }
    v
}

fn input_tags(s: &str, extra: &[String]) -> Vec<String> {
    let mut t: Vec<String> = extra.to_vec();
    if s.contains("<<''") || s.contains("<<\"\"") {
        t.push("heredoc-empty-delimiter".into());
    }
    if s.chars().filter(|c| c.is_ascii_digit()).count() >= 19 {
        t.push("huge-number".into());
    }
    // a brace range with a bound of ten or more digits
    if let (Some(b), Some(_)) = (s.find('{'), s.find("..")) {
        let mut run = 0;
        for c in s[b..].chars() {
            if c.is_ascii_digit() {
                run += 1;
                if run >= 10 {
                    t.push("huge-range".into());
                    break;
                }
            } else {
                run = 0;
            }
        }
    }
    t
}

fn absorb(rep: &mut Report, out: &[u8], what: &str, extra_tags: &[String]) {
    let v: Value = serde_json::from_slice(out).unwrap_or(Value::Null);
    rep.evaluations += v["calls"].as_u64().unwrap_or(0);
    rep.add(&format!("{what}_inputs"), v["n"].as_u64().unwrap_or(0));
    rep.nontrivial_extra += v["parsed_ok"].as_u64().unwrap_or(0);
    for f in v["fails"].as_array().cloned().unwrap_or_default() {
        let input = f["input"].as_str().unwrap_or("").to_string();
        let mut tags = input_tags(&input, extra_tags);
        tags.push(format!("entry:{}", f["entry"].as_str().unwrap_or("")));
        rep.fail(Failure { case: format!("{what}: {:?}", input), tags, expected: "returns (Ok or Err)".into(), observed: format!("panic: {}", f["panic"].as_str().unwrap_or("")), oracle: "no-panic".into() });
    }
}

pub fn run(tier: Tier, _replay: Option<Value>) -> ! {
    let mut rep = Report::new("C01", tier, "exploration");
    let corpus_all: Vec<CorpusCase> = match tier {
        Tier::Thorough => corpus::all_cases(tier),
        Tier::Quick => {
            let mut v: Vec<CorpusCase> = corpus::substitutions(tier).into_iter().filter(|c| c.tags.iter().filter(|t| t.starts_with("slot:")).count() <= 1).collect();
            v.extend(corpus::mutations(tier).into_iter().filter(|c| !c.tags.iter().any(|t| t.starts_with("mut:rep@"))));
            v.extend(corpus::nestings(8));
            v
        }
    };
    let mut corpus_all = corpus_all;
    corpus_all.extend(reinterpretation_cases());
    corpus_all.extend(size_cases());
    // The phases are independent and mostly wait on wall-clock caps: the bash pre-pass, the in-process
    // execution and the real-binary runs proceed in the background while the parser/editor passes run.
    let exec_cases: Vec<&CorpusCase> = corpus_all.iter().filter(|c| c.text.len() <= 150_000).collect();
    let scripts: Vec<String> = exec_cases.iter().map(|c| c.text.clone()).collect();
    let tmpl: Vec<&CorpusCase> = corpus_all.iter().filter(|c| c.tags.iter().any(|t| t == "default" || t.starts_with("nest:"))).filter(|c| c.text.len() < 100_000).collect();
    let tmpl: Vec<&CorpusCase> = if tier == Tier::Quick { tmpl.into_iter().filter(|c| c.tags.iter().any(|t| t == "default") || c.tags.iter().filter(|t| t.starts_with("nest:")).count() == 1).collect() } else { tmpl };
    let _ = procs::helper_dir();
    let scripts_ref = &scripts;
    let tmpl_ref = &tmpl;
    std::thread::scope(|scope| {
    let h_bash = scope.spawn(move || {
        let bspecs: Vec<procs::ProcSpec> = scripts_ref.iter().map(|s| { let mut sp = bash::spec_file(bash::BASH, s, 2_000); sp.no_confirm = true; sp.cap_output = 4096; sp }).collect();
        procs::run_many(&bspecs, (bash::procs_par() / 2).max(2))
    });
    let h_exec = scope.spawn(move || {
        let jcases: Vec<Value> = scripts_ref.iter().enumerate().map(|(i, s)| json!({"s": s, "mode": if i % 2 == 0 { "file" } else { "dash-c" }, "cap": 4096})).collect();
        let cfgx = PoolCfg::new("script").timeout_ms(3_000);
        let bytes: Vec<Vec<u8>> = jcases.iter().map(|c| c.to_string().into_bytes()).collect();
        pool::run(&cfgx, &bytes)
    });
    let h_real = scope.spawn(move || {
        let brush = procs::brush_path();
        let mut specs = vec![];
        for c in tmpl_ref.iter() {
            for mut sp in [bash::spec_file(&brush, &c.text, 4_000), bash::spec_dash_c(&brush, &c.text, 4_000), bash::spec_stdin(&brush, &c.text, 4_000)] {
                sp.cap_output = 65536;
                specs.push(sp);
            }
        }
        procs::run_many(&specs, (bash::procs_par() / 2).max(2))
    });
    // ---- (a) all strings through the parser entry points
    let max_len = tier.pick(4, 5);
    let cfg = PoolCfg::new("c01").timeout_ms(120_000);
    let r = shards::run_sharded(&cfg, SIGMA1, max_len, 2, &json!({"mode": "parse"}));
    for (_, out) in &r.ok {
        absorb(&mut rep, out, "parse", &[]);
    }
    for (s, o) in &r.crashes {
        rep.fail(Failure { case: format!("parse: {:?}", s), tags: input_tags(s, &["worker-death".into()]), expected: "returns".into(), observed: o.describe(), oracle: "no-crash".into() });
    }
    eprintln!("  [C01] phase a done at {:.1}s", rep.started.elapsed().as_secs_f64());
    rep.set("alphabet_bound", format!("length <= {max_len} over {} symbols", SIGMA1.len()));
    // ---- corpus through the parser entry points and the line-editor entry points
    rep.set("corpus_cases", corpus_all.len() as u64);
    let mut retries_left = 40u32;
    for (mode, what, chunk) in [("parse", "corpus-parse", 100usize), ("editor", "editor", 25usize)] {
        let lines: Vec<&CorpusCase> = corpus_all.iter().filter(|c| if mode == "parse" { c.text.len() <= 5000 } else { c.text.len() <= 200 && !c.tags.iter().any(|t| t == "reinterpret" || t == "sizes") }).collect();
        // the editor pass takes every cursor position (a completion each): at the quick tier it covers the
        // default templates, the nestings and three boundary values per slot
        let lines: Vec<&CorpusCase> = if mode == "editor" && tier == Tier::Quick {
            lines.into_iter().filter(|c| !c.tags.iter().any(|t| t.starts_with("mut:")) && c.tags.iter().all(|t| !t.starts_with("val:") || matches!(t.as_str(), "val:empty" | "val:e-acute" | "val:2^63"))).collect()
        } else {
            lines
        };
        let cfg = PoolCfg::new("c01").timeout_ms(10_000).no_confirm();
        let cases: Vec<Vec<u8>> = lines.chunks(chunk).map(|c| json!({"mode": mode, "lines": c.iter().map(|x| x.text.clone()).collect::<Vec<_>>()}).to_string().into_bytes()).collect();
        let outs = pool::run(&cfg, &cases);
        eprintln!("  [C01] phase {what} ({} lines) done at {:.1}s", lines.len(), rep.started.elapsed().as_secs_f64());
        for (ci, o) in outs.iter().enumerate() {
            match o {
                Outcome::Ok(b) => absorb(&mut rep, b, what, &[]),
                _ => {
                    // isolate the offending line
                    let group: Vec<&&CorpusCase> = lines.chunks(chunk).nth(ci).unwrap().iter().collect();
                    let cfg1 = PoolCfg::new("c01").timeout_ms(3_000);
                    let singles: Vec<Vec<u8>> = group.iter().map(|c| json!({"mode": mode, "lines": [c.text]}).to_string().into_bytes()).collect();
                    let o1 = pool::run(&cfg1, &singles);
                    for (c, o) in group.iter().zip(o1) {
                        match o {
                            Outcome::Ok(b) => absorb(&mut rep, &b, what, &c.tags),
                            bad => {
                                let mut bad = bad;
                                let is_huge_range = input_tags(&c.text, &[]).iter().any(|t| t == "huge-range");
                                if matches!(bad, Outcome::Timeout) && !is_huge_range && retries_left > 0 {
                                    retries_left -= 1;
                                    // slow is not the same as hanging: once more with four times the cap (for at
                                    // most 40 cases of a run; astronomically large brace ranges are never retried)
                                    let cfg4 = PoolCfg::new("c01").timeout_ms(12_000);
                                    let again = pool::run(&cfg4, &[json!({"mode": mode, "lines": [c.text]}).to_string().into_bytes()]);
                                    match again.into_iter().next() {
                                        Some(Outcome::Ok(b)) => {
                                            rep.add("slow_cases_finished_with_4x_cap", 1);
                                            absorb(&mut rep, &b, what, &c.tags);
                                            continue;
                                        }
                                        Some(o) => bad = o,
                                        None => {}
                                    }
                                    // a parser entry point that does not finish on a whole program text is a defect of
                                    // the SHELL only if the shell itself does not finish that text either
                                    if mode == "parse" && matches!(bad, Outcome::Timeout) {
                                        let mut sp = bash::spec_dash_c(&procs::brush_path(), &format!("set -n\n{}", c.text), 10_000);
                                        sp.no_confirm = true;
                                        sp.cap_output = 4096;
                                        let o = procs::run_one(&sp, &procs::scratch_root().join("c01confirm"));
                                        if !o.timed_out {
                                            rep.add("entry_point_timeouts_not_reproduced_by_the_shell", 1);
                                            continue;
                                        }
                                    }
                                }
                                let mut tags = input_tags(&c.text, &c.tags);
                                tags.push(if matches!(bad, Outcome::Timeout) { "timeout".into() } else { "worker-death".into() });
                                rep.fail(Failure { case: format!("{what}: {:?}", c.text), tags, expected: "returns".into(), observed: bad.describe(), oracle: "no-crash".into() });
                            }
                        }
                    }
                }
            }
        }
    }
    // ---- (e) execution: in-process through run_script / run_dash_c_command
    // bash first: work that bash itself does not finish within the cap is not "bounded work"
    let bashr = h_bash.join().expect("bash pre-pass");
    eprintln!("  [C01] bash pre-pass ({} scripts) done at {:.1}s", scripts.len(), rep.started.elapsed().as_secs_f64());
    let outs = h_exec.join().expect("exec phase");
    eprintln!("  [C01] exec done at {:.1}s", rep.started.elapsed().as_secs_f64());
    let mut bash_unbounded = 0u64;
    for (i, o) in outs.iter().enumerate() {
        rep.evaluations += 1;
        let c = exec_cases[i];
        let b = &bashr[i];
        if b.timed_out || b.signal.is_some() || b.status >= 128 {
            // bash does not finish it either (or dies, e.g. a script that sources itself): not bounded work
            bash_unbounded += 1;
            continue;
        }
        rep.nontrivial.insert(format!("{:x}", crate::engine::report::hash_str(&c.text)));
        let obs = common::decode(o);
        match &obs.crash {
            Some(cr) => {
                let mut tags = input_tags(&c.text, &c.tags);
                tags.push(if cr.starts_with("TIMEOUT") { "timeout".into() } else if cr.starts_with("PANIC") { "panic".into() } else { "worker-death".into() });
                rep.fail(Failure { case: c.text.clone(), tags, expected: format!("ends with a status (bash: {})", b.status), observed: cr.clone(), oracle: "no-crash".into() });
            }
            None => {
                rep.observe(&format!("{}|{}", obs.status, obs.err.is_empty()));
                // the size family also says what must come out: the same bytes (length + checksum) as in bash
                if c.tags.iter().any(|t| t == "sizes") && obs.out != b.out_str() {
                    let mut tags = c.tags.clone();
                    tags.push("size-output".into());
                    rep.fail(Failure { case: crate::engine::report::truncate(&c.text, 300), tags, expected: crate::engine::report::truncate(&b.out_str(), 120), observed: crate::engine::report::truncate(&obs.out, 120), oracle: "bash".into() });
                }
                // invalid input must produce a diagnostic and a failure status
                let bash_syntax = b.status == 2 && b.err_str().contains("syntax error");
                if bash_syntax && (obs.status == 0 || obs.err.is_empty()) && obs.out.is_empty() && b.stdout.is_empty() {
                    let mut tags = input_tags(&c.text, &c.tags);
                    tags.push("syntax-error-accepted".into());
                    rep.fail(Failure { case: c.text.clone(), tags, expected: format!("diagnostic + non-zero status (bash: {})", crate::engine::report::truncate(&b.err_str(), 120)), observed: format!("status {} stderr {:?}", obs.status, crate::engine::report::truncate(&obs.err, 120)), oracle: "diagnostic-for-invalid-input".into() });
                }
            }
        }
    }
    rep.set("exec_cases", exec_cases.len() as u64);
    rep.set("exec_skipped_bash_did_not_finish", bash_unbounded);
    // ---- the real binary on all three front-ends for every default-rendered template and nesting
    let pr = h_real.join().expect("real binary phase");
    eprintln!("  [C01] real binary ({} runs) done at {:.1}s", pr.len(), rep.started.elapsed().as_secs_f64());
    for (k, o) in pr.iter().enumerate() {
        rep.evaluations += 1;
        let c = tmpl[k / 3];
        let fe = ["file", "-c", "stdin"][k % 3];
        let err = o.err_str();
        let bad = o.timed_out || o.signal.is_some() || o.status == 101 || o.status == 134 || err.contains("panicked at") || err.contains("Well, this is embarrassing");
        if bad {
            let mut tags = input_tags(&c.text, &c.tags);
            tags.push(format!("frontend:{fe}"));
            tags.push(if o.timed_out { "timeout".into() } else { "binary-crash".into() });
            rep.fail(Failure { case: c.text.clone(), tags, expected: "exit status, no panic".into(), observed: format!("status {} signal {:?} timed_out {} stderr {}", o.status, o.signal, o.timed_out, crate::engine::report::truncate(&err, 200)), oracle: "real-binary".into() });
        }
    }
    rep.set("real_binary_runs", pr.len() as u64);
    // ---- (h) start-up: every variable the shell reads from its environment, set to every boundary value
    {
        const ENV_VARS: &[&str] = &["SHLVL", "HISTSIZE", "HISTFILESIZE", "HISTFILE", "COLUMNS", "LINES", "OPTIND", "PPID", "RANDOM", "SECONDS", "IFS", "PATH", "HOME", "PWD", "OLDPWD", "PS1", "PS4", "TMOUT", "LANG", "LC_ALL", "BASHOPTS", "SHELLOPTS", "POSIXLY_CORRECT", "BASH_ENV", "ENV", "UID", "EUID", "LINENO", "BASH_XTRACEFD", "FUNCNEST", "TMPDIR", "HOSTNAME", "MAILCHECK", "INPUTRC", "TERM", "BASH_COMPAT", "EPOCHSECONDS", "SRANDOM"];
        let brush = procs::brush_path();
        let mut specs = vec![];
        let mut desc = vec![];
        for var in ENV_VARS {
            for (vi, val) in corpus::BOUNDARY.iter().enumerate() {
                let val = if *val == "$'\\0'" { "\u{1}" } else { val };
                let mut sp = bash::spec_dash_c(&brush, "echo ok; echo $SHLVL $OPTIND >/dev/null; x=$((1+1))", 4_000);
                sp.env.push((var.to_string(), val.to_string()));
                specs.push(sp);
                desc.push(format!("{var}={val:?} brush -c 'echo ok; …'  [{}]", corpus::val_name(vi)));
            }
        }
        let er = procs::run_many(&specs, bash::procs_par());
        for (k, o) in er.iter().enumerate() {
            rep.evaluations += 1;
            let err = o.err_str();
            let bad = o.timed_out || o.signal.is_some() || o.status == 101 || o.status == 134 || err.contains("panicked at") || err.contains("Well, this is embarrassing");
            if bad {
                let var = ENV_VARS[k / corpus::BOUNDARY.len()];
                rep.fail(Failure { case: desc[k].clone(), tags: vec!["env-at-startup".into(), format!("env:{var}"), if o.timed_out { "timeout".into() } else { "binary-crash".into() }], expected: "exit status, no panic".into(), observed: format!("status {} signal {:?} timed_out {} stderr {}", o.status, o.signal, o.timed_out, crate::engine::report::truncate(&err, 200)), oracle: "real-binary".into() });
            }
        }
        rep.set("env_startup_runs", er.len() as u64);
    }
    rep.rule = format!(
        "(a) all strings over the {}-symbol alphabet with <= {max_len} symbols through tokenizer (3 option sets), program parser, word, brace, arithmetic, pattern, prompt, parameter and here-doc parsers; (b)-(d) {} construct templates x {} boundary values (single{}), token mutations (deviation bound {}), nestings of {} constructs and ordered pairs to depth 64 — parsed, executed in-process via run_script / run_dash_c_command, and (templates, nestings) by the real binary on file/-c/stdin; (f) completion at every cursor and prompt expansion; (i) 9 payload sizes around the page and pipe capacities x 12 constructs that move a value through a descriptor; (h) the real binary started with each of 38 environment variables set to each boundary value; (g) all pairs of 16 self-/cross-referencing values for the names a, b under plain/integer/array/nameref set-ups read through 16 arithmetic, subscript and indirection entry points, and all pairs of 7 alias bodies; non-trivial = inputs that parse / scripts bash finishes",
        SIGMA1.len(),
        corpus::TEMPLATES.len(),
        corpus::BOUNDARY.len() + 1,
        if tier == Tier::Thorough { " and pairwise" } else { "" },
        tier.pick("1, structural", "2 structural + 1 replacement"),
        corpus::NESTERS.len()
    );
    rep.sample(json!({"string": "$((a"}));
    if let Some(c) = corpus_all.get(corpus_all.len() / 3) {
        rep.sample(json!({"corpus": c.text, "tags": c.tags}));
    }
    if let Some(c) = corpus_all.last() {
        rep.sample(json!({"corpus": crate::engine::report::truncate(&c.text, 200), "tags": c.tags}));
    }
    rep.assumptions.push("scripts that bash itself does not finish within 2 s are treated as unbounded work and skipped (counted)".into());
    rep.assumptions.push("unbounded run-time recursion and astronomically large expansions are resource exhaustion, reported under tags huge-number/timeout".into());
    rep.finish()
    })
}
