//! C13 — shell-quoted output re-reads to the original values.
//! Every value over a quoting-relevant alphabet up to a length bound is placed (through the API) as a
//! scalar, array element, associative key/value, alias body and trap command; every producer's text is
//! fed back to `eval` in a fresh brush (in-process) and in bash; what is read back must be the original.

use super::c08::ansi_c;
use super::common;
use crate::engine::report::{Failure, Report, Tier};
use crate::engine::{bash, enumerate};
use serde_json::{Value, json};

pub const SIGMA: &[&str] = &["'", "\"", "\\", "$", "`", "!", " ", "\t", "\n", "\r", "\x01", "\x7f", "é", "-", "~", "#", "=", "*", "a", "(", "["];

const SEP: &str = "\n#@#";

struct Producer {
    name: &'static str,
    /// brush-side script printing the text (x holds the value)
    script: &'static str,
    /// how the text is read back
    reader: &'static str,
    /// values this producer applies to
    applies: fn(&str) -> bool,
}

fn any(_: &str) -> bool {
    true
}
fn nonempty(v: &str) -> bool {
    !v.is_empty()
}

fn producers() -> Vec<Producer> {
    vec![
        Producer { name: "printf %q", script: "printf '%q' \"$x\"", reader: "args+assign", applies: any },
        Producer { name: "${v@Q}", script: "printf '%s' \"${x@Q}\"", reader: "args+assign", applies: any },
        Producer { name: "${v@A}", script: "printf '%s' \"${x@A}\"", reader: "stmt-x", applies: any },
        Producer { name: "declare -p", script: "declare -p x", reader: "stmt-x", applies: any },
        Producer { name: "declare -p (-x)", script: "declare -x x; declare -p x", reader: "stmt-x", applies: any },
        Producer { name: "declare -p (-r)", script: "declare -r x; declare -p x", reader: "stmt-x", applies: any },
        Producer { name: "declare -p (-l)", script: "declare -l x=\"$x\"; declare -p x", reader: "stmt-x", applies: any },
        Producer { name: "declare -p array", script: "a=(\"$x\" \"$x\"); declare -p a", reader: "array", applies: any },
        Producer { name: "${a[@]@A}", script: "a=(\"$x\" \"$x\"); printf '%s' \"${a[@]@A}\"", reader: "array", applies: any },
        Producer { name: "declare -p assoc value", script: "declare -A mv; mv[k]=\"$x\"; declare -p mv", reader: "assoc-value", applies: any },
        Producer { name: "declare -p assoc key", script: "declare -A mk; mk[\"$x\"]=1; declare -p mk", reader: "assoc-key", applies: nonempty },
        Producer { name: "set", script: "zzzq=\"$x\"; set", reader: "set-extract", applies: any },
        Producer { name: "export -p", script: "export zzzx=\"$x\"; export -p", reader: "export-extract", applies: any },
        Producer { name: "alias", script: "alias al=\"$x\"; alias al", reader: "alias", applies: any },
        Producer { name: "trap -p", script: "trap -- \"$x\" USR1; trap -p USR1", reader: "trap", applies: nonempty },
        Producer { name: "set -x trace", script: "PS4='+ '; { set -x; : \"$x\"; { set +x; } 2>/dev/null; } 2>&1", reader: "xtrace", applies: any },
        // the other command forms the trace prints: assignments, array literals, keyed literals
        Producer { name: "set -x trace assignment", script: "PS4='+ '; { set -x; x2=\"$x\"; { set +x; } 2>/dev/null; } 2>&1", reader: "xtrace-x2", applies: any },
        Producer { name: "set -x trace array literal", script: "PS4='+ '; { set -x; a=(\"$x\" \"$x\"); { set +x; } 2>/dev/null; } 2>&1", reader: "xtrace-array", applies: any },
        Producer { name: "set -x trace keyed literal value", script: "PS4='+ '; declare -A mv; { set -x; mv=([k]=\"$x\"); { set +x; } 2>/dev/null; } 2>&1", reader: "xtrace-assoc-value", applies: any },
        Producer { name: "set -x trace keyed literal key", script: "PS4='+ '; declare -A mk; { set -x; mk=([\"$x\"]=1); { set +x; } 2>/dev/null; } 2>&1", reader: "xtrace-assoc-key", applies: nonempty },
        Producer { name: "set -x trace append keyed", script: "PS4='+ '; declare -A mk; { set -x; mk+=([\"$x\"]=1); { set +x; } 2>/dev/null; } 2>&1", reader: "xtrace-assoc-key", applies: nonempty },
    ]
}

/// (reader name, script using $T, expected vargs records as a function of v)
fn reader_scripts(reader: &str) -> Vec<(&'static str, &'static str)> {
    match reader {
        "args+assign" => vec![("arg", "eval \"set -- $T\"; vargs \"$@\""), ("assign", "eval \"y=$T\"; vargs \"$y\"")],
        "stmt-x" => vec![("stmt", "eval \"$T\"; vargs \"$x\"")],
        "array" => vec![("stmt", "eval \"$T\"; vargs \"${a[@]}\"")],
        "assoc-value" => vec![("stmt", "eval \"$T\"; vargs \"${mv[k]}\" \"${#mv[@]}\"")],
        "assoc-key" => vec![("stmt", "eval \"$T\"; vargs \"${!mk[@]}\" \"${#mk[@]}\"")],
        "set-extract" => vec![("stmt", "eval \"$T\"; vargs \"$zzzq\"")],
        "export-extract" => vec![("stmt", "eval \"$T\"; vargs \"$zzzx\"; venv zzzx")],
        "alias" => vec![("stmt", "shopt -s expand_aliases; eval \"$T\"; vargs \"${BASH_ALIASES[al]}\"")],
        "trap" => vec![("stmt", "trap -- \"$x\" USR1; b1=$(trap -p USR1); trap - USR1; eval \"$T\"; b2=$(trap -p USR1); if [[ \"$b1\" == \"$b2\" ]]; then vargs same; else vargs \"$b1\" \"$b2\"; fi")],
        "xtrace" => vec![("arg", "eval \"set -- $T\"; vargs \"$@\"")],
        "xtrace-x2" => vec![("stmt", "eval \"$T\"; vargs \"$x2\"")],
        "xtrace-array" => vec![("stmt", "eval \"$T\"; vargs \"${a[@]}\"")],
        "xtrace-assoc-value" => vec![("stmt", "declare -A mv; eval \"$T\"; vargs \"${mv[k]}\" \"${#mv[@]}\"")],
        "xtrace-assoc-key" => vec![("stmt", "declare -A mk; eval \"$T\"; vargs \"${!mk[@]}\" \"${#mk[@]}\"")],
        _ => vec![],
    }
}

fn expected(reader: &str, v: &str) -> String {
    let rec = |a: &[&str]| {
        let mut s = format!("{}\0", a.len());
        for x in a {
            s.push_str(x);
            s.push('\0');
        }
        s.push('\n');
        s
    };
    match reader {
        "args+assign" | "stmt-x" | "set-extract" | "alias" | "xtrace" | "xtrace-x2" => rec(&[v]),
        "array" | "xtrace-array" => rec(&[v, v]),
        "assoc-value" | "assoc-key" | "xtrace-assoc-value" | "xtrace-assoc-key" => rec(&[v, "1"]),
        "export-extract" => format!("{}zzzx={v}\n", rec(&[v])),
        "trap" => rec(&["same"]),
        _ => String::new(),
    }
}

/// Cuts the produced text down to what is fed to eval.
fn extract(reader: &str, text: &str) -> Option<String> {
    match reader {
        "set-extract" => {
            // the assignment of zzzq up to the next line that starts another `name=` at column 0 — zzzq sorts last
            let start = if text.starts_with("zzzq=") { 0 } else { text.find("\nzzzq=")? + 1 };
            Some(text[start..].trim_end_matches('\n').to_string())
        }
        "export-extract" => {
            let start = if text.starts_with("declare -x zzzx=") { 0 } else { text.find("\ndeclare -x zzzx=")? + 1 };
            let rest = &text[start..];
            let end = rest[1..].find("\ndeclare -x ").map(|i| i + 1).unwrap_or(rest.len());
            Some(rest[..end].trim_end_matches('\n').to_string())
        }
        "xtrace" => {
            // "+ : <quoted>\n+ set +x\n"
            // the producer runs in a subshell, so PS4's first character may be repeated
            let t = text.trim_start_matches('+').strip_prefix(" : ")?;
            let end = t.rfind("\n+").filter(|i| t[*i..].trim_start_matches(['\n', '+']).starts_with(" set +x")).unwrap_or(t.trim_end_matches('\n').len());
            Some(t[..end].to_string())
        }
        r if r.starts_with("xtrace-") => {
            // "+ <statement>\n+ set +x\n" (PS4's first character may be repeated)
            let t = text.trim_start_matches('+').strip_prefix(' ')?;
            let end = t.rfind("\n+").filter(|i| t[*i..].trim_start_matches(['\n', '+']).starts_with(" set +x")).unwrap_or(t.trim_end_matches('\n').len());
            Some(t[..end].to_string())
        }
        _ => Some(text.strip_suffix('\n').unwrap_or(text).to_string()),
    }
}

pub fn value_tags(v: &str) -> Vec<String> {
    let mut t = vec![];
    let mut add = |c: bool, n: &str| {
        if c {
            t.push(format!("sym:{n}"))
        }
    };
    add(v.contains('\''), "squote");
    add(v.contains('"'), "dquote");
    add(v.contains('\\'), "backslash");
    add(v.contains('$'), "dollar");
    add(v.contains('`'), "backquote");
    add(v.contains('!'), "bang");
    add(v.contains('\n'), "newline");
    add(v.contains('\r'), "cr");
    add(v.contains('\t'), "tab");
    add(v.contains('\x01') || v.contains('\x7f'), "control");
    add(v.starts_with('~'), "leading-tilde");
    add(v.starts_with('-'), "leading-dash");
    add(v.starts_with('#'), "leading-hash");
    add(v.contains('='), "equals");
    add(v.contains('(') || v.contains('['), "paren-bracket");
    add(!v.is_ascii(), "multibyte");
    add(v.is_empty(), "empty");
    t
}

pub fn run(tier: Tier, _replay: Option<Value>) -> ! {
    let mut rep = Report::new("C13", tier, "exploration");
    let values = enumerate::strings(SIGMA, tier.pick(2, 3));
    let prods = producers();
    // stage 1: produce
    let mut pscript = String::new();
    for (k, p) in prods.iter().enumerate() {
        pscript.push_str(&format!("printf '{}{k}\\n'\n( {} )\n", SEP.replace('\n', "\\n"), p.script));
    }
    pscript.push_str(&format!("printf '{}E\\n'\n", SEP.replace('\n', "\\n")));
    let pcases: Vec<Value> = values.iter().map(|v| json!({"s": pscript, "vars": {"x": v}})).collect();
    let pobs = common::run_scripts(&pcases, 60_000);
    // stage 2: read back
    struct RC {
        vi: usize,
        pi: usize,
        rname: &'static str,
        script: &'static str,
        text: String,
    }
    let mut rcs: Vec<RC> = vec![];
    for (vi, v) in values.iter().enumerate() {
        let o = &pobs[vi];
        if let Some(cr) = &o.crash {
            let mut tags = value_tags(v);
            tags.push("producer-crash".into());
            rep.fail(Failure { case: format!("value={:?} (producers)", v), tags, expected: "no crash".into(), observed: cr.clone(), oracle: "no-crash".into() });
            continue;
        }
        let parts: Vec<&str> = o.out.split(SEP).collect();
        for (pi, p) in prods.iter().enumerate() {
            if !(p.applies)(v) {
                continue;
            }
            rep.evaluations += 1;
            let raw = parts.iter().find_map(|s| s.strip_prefix(&format!("{pi}\n"))).unwrap_or("");
            let Some(text) = extract(p.reader, raw) else {
                let mut tags = value_tags(v);
                tags.push(format!("producer:{}", p.name));
                rep.fail(Failure { case: format!("value={:?} producer={}", v, p.name), tags, expected: "text containing the variable".into(), observed: crate::engine::report::truncate(raw, 200), oracle: "producer-output".into() });
                continue;
            };
            for (rname, script) in reader_scripts(p.reader) {
                rcs.push(RC { vi, pi, rname, script, text: text.clone() });
            }
        }
    }
    let bcases: Vec<Value> = rcs.iter().map(|r| json!({"s": r.script, "vars": {"T": r.text, "x": values[r.vi]}})).collect();
    let brush = common::run_scripts(&bcases, 30_000);
    let bash_cases: Vec<String> = rcs.iter().map(|r| format!("T={}; x={}; {}", ansi_c(&r.text), ansi_c(&values[r.vi]), r.script)).collect();
    let bashr = bash::batch_eval("venv() { printf '%s=%s\\n' \"$1\" \"${!1}\"; }\n", &bash_cases, &[], 400);
    for (i, r) in rcs.iter().enumerate() {
        let v = &values[r.vi];
        let p = &prods[r.pi];
        let want = expected(p.reader, v);
        rep.evaluations += 2;
        rep.nontrivial.insert(format!("{}|{}|{}", v, p.name, r.rname));
        let got_brush = match &brush[i].crash {
            Some(c) => format!("CRASH {c}"),
            None => brush[i].out.clone(),
        };
        let got_bash = bashr[i].as_ref().map(|b| String::from_utf8_lossy(&b.stdout).into_owned()).unwrap_or_else(|| "<no record>".into());
        rep.observe(&r.text);
        for (who, got) in [("brush", &got_brush), ("bash", &got_bash)] {
            // `${BASH_ALIASES[..]}` is how the bash reader looks inside; brush may not offer it: use the fixed point there
            if who == "brush" && p.reader == "alias" {
                continue;
            }
            // bash itself loses one of two adjacent \001 bytes (its internal escape character) in a keyed
            // literal's subscript, whatever the quoting: not a reader to compare with for those keys
            if who == "bash" && p.reader == "xtrace-assoc-key" && v.contains('\u{1}') {
                continue;
            }
            if *got != want {
                let mut tags = value_tags(v);
                tags.push(format!("producer:{}", p.name));
                tags.push(format!("reader:{who}"));
                tags.push(format!("position:{}", r.rname));
                rep.fail(Failure {
                    case: format!("value={:?} producer={} text={:?} reader={who}/{}", v, p.name, r.text, r.rname),
                    tags,
                    expected: want.replace('\0', "␀"),
                    observed: got.replace('\0', "␀"),
                    oracle: format!("roundtrip-{who}"),
                });
            }
        }
        if i % (rcs.len() / 6).max(1) == 0 {
            rep.sample(json!({"value": v, "producer": p.name, "text": r.text, "reader": r.rname}));
        }
    }
    // alias in brush: fixed point (eval the listing in a fresh shell, list again)
    let alias_idx = prods.iter().position(|p| p.name == "alias").unwrap();
    let acs: Vec<&RC> = rcs.iter().filter(|r| r.pi == alias_idx).collect();
    let acases: Vec<Value> = acs.iter().map(|r| json!({"s": "eval \"$T\"; alias al", "vars": {"T": r.text}})).collect();
    let aobs = common::run_scripts(&acases, 30_000);
    for (r, o) in acs.iter().zip(aobs.iter()) {
        rep.evaluations += 1;
        let got = o.crash.clone().unwrap_or_else(|| o.out.trim_end_matches('\n').to_string());
        if got != r.text {
            let v = &values[r.vi];
            let mut tags = value_tags(v);
            tags.push("producer:alias".into());
            tags.push("reader:brush".into());
            rep.fail(Failure { case: format!("value={:?} producer=alias text={:?} reader=brush/fixed-point", v, r.text), tags, expected: r.text.clone(), observed: got, oracle: "roundtrip-brush".into() });
        }
    }
    rep.set("values", values.len() as u64);
    rep.set("producers", prods.iter().map(|p| p.name).collect::<Vec<_>>());
    rep.rule = format!(
        "all values over the {}-symbol alphabet {:?} with <= {} symbols, as scalar, array element, associative key and value, alias body and trap command, through {} producers; every produced text is evaluated by a fresh brush and by bash in argument and assignment position; distinct = (value, producer, position)",
        SIGMA.len(),
        SIGMA,
        tier.pick(2, 3),
        prods.len()
    );
    rep.assumptions.push("attribute round trip for -x is observed through a child's environment; -i is left out (non-numeric values are not assignable)".into());
    rep.finish()
}
