//! Typed grammar of control constructs with scripted leaves, enumerated exhaustively by size.
//! Shared by C02 (control flow), C03 (errexit & co), C14 (function printing), C15, C16.

use std::collections::HashMap;

#[derive(Clone, Debug, PartialEq, Eq, Hash)]
pub enum S {
    /// `ok` (marker, status 0), `ko` (marker, status 1), `rc n` (marker, status n)
    Leaf(u8),
    /// break/continue/return/exit with optional level/status
    Ctl(&'static str, Option<u8>),
    Seq(Box<S>, Box<S>),
    And(Box<S>, Box<S>),
    Or(Box<S>, Box<S>),
    Not(Box<S>),
    If(Box<S>, Box<S>),
    IfElse(Box<S>, Box<S>, Box<S>),
    Elif(Box<S>, Box<S>, Box<S>, Box<S>),
    While(Box<S>),
    Until(Box<S>),
    For(Box<S>),
    ForArith(Box<S>),
    Case(Box<S>),
    CaseFall(Box<S>, Box<S>),
    CaseCont(Box<S>, Box<S>),
    Group(Box<S>),
    Sub(Box<S>),
    Call(Box<S>),
}

pub fn size(s: &S) -> usize {
    match s {
        S::Leaf(_) | S::Ctl(..) => 1,
        S::Not(a) | S::While(a) | S::Until(a) | S::For(a) | S::ForArith(a) | S::Case(a) | S::Group(a) | S::Sub(a) | S::Call(a) => 1 + size(a),
        S::Seq(a, b) | S::And(a, b) | S::Or(a, b) | S::If(a, b) | S::CaseFall(a, b) | S::CaseCont(a, b) => 1 + size(a) + size(b),
        S::IfElse(a, b, c) => 1 + size(a) + size(b) + size(c),
        S::Elif(a, b, c, d) => 1 + size(a) + size(b) + size(c) + size(d),
    }
}

pub fn leaves_full() -> Vec<S> {
    let mut v = vec![S::Leaf(0), S::Leaf(1), S::Leaf(2)];
    for k in ["break", "continue", "return", "exit"] {
        for n in [None, Some(0), Some(1), Some(2), Some(3)] {
            v.push(S::Ctl(k, n));
        }
    }
    v
}

pub fn leaves_reduced() -> Vec<S> {
    vec![
        S::Leaf(0),
        S::Leaf(1),
        S::Ctl("break", None),
        S::Ctl("break", Some(2)),
        S::Ctl("continue", None),
        S::Ctl("return", None),
        S::Ctl("return", Some(3)),
        S::Ctl("exit", None),
        S::Ctl("exit", Some(3)),
    ]
}

/// All programs of exactly `n` nodes over the given leaves (memoised).
pub fn exact(n: usize, leaves: &[S], memo: &mut HashMap<usize, Vec<S>>) -> Vec<S> {
    if let Some(v) = memo.get(&n) {
        return v.clone();
    }
    let mut out = vec![];
    if n == 1 {
        out = leaves.to_vec();
    } else if n >= 2 {
        let b = |s: &S| Box::new(s.clone());
        for a in exact(n - 1, leaves, memo) {
            out.push(S::Not(b(&a)));
            out.push(S::Group(b(&a)));
            out.push(S::Sub(b(&a)));
            out.push(S::Call(b(&a)));
            out.push(S::While(b(&a)));
            out.push(S::Until(b(&a)));
            out.push(S::For(b(&a)));
            out.push(S::ForArith(b(&a)));
            out.push(S::Case(b(&a)));
        }
        for i in 1..n.saturating_sub(1) {
            let j = n - 1 - i;
            if j < 1 {
                continue;
            }
            let xs = exact(i, leaves, memo);
            let ys = exact(j, leaves, memo);
            for x in &xs {
                for y in &ys {
                    out.push(S::Seq(b(x), b(y)));
                    out.push(S::And(b(x), b(y)));
                    out.push(S::Or(b(x), b(y)));
                    out.push(S::If(b(x), b(y)));
                    out.push(S::CaseFall(b(x), b(y)));
                    out.push(S::CaseCont(b(x), b(y)));
                }
            }
        }
        if n >= 4 {
            for i in 1..=(n - 3) {
                for j in 1..=(n - 2 - i) {
                    let k = n - 1 - i - j;
                    if k < 1 {
                        continue;
                    }
                    let (xs, ys, zs) = (exact(i, leaves, memo), exact(j, leaves, memo), exact(k, leaves, memo));
                    for x in &xs {
                        for y in &ys {
                            for z in &zs {
                                out.push(S::IfElse(b(x), b(y), b(z)));
                            }
                        }
                    }
                }
            }
        }
        if n == 5 {
            // elif with four leaf operands
            let l = exact(1, leaves, memo);
            for x in &l {
                for y in &l {
                    for z in &l {
                        for w in &l {
                            out.push(S::Elif(b(x), b(y), b(z), b(w)));
                        }
                    }
                }
            }
        }
    }
    memo.insert(n, out.clone());
    out
}

pub fn up_to(n: usize, leaves: &[S]) -> Vec<S> {
    let mut memo = HashMap::new();
    let mut out = vec![];
    for k in 1..=n {
        out.extend(exact(k, leaves, &mut memo));
    }
    out
}

pub struct Render {
    pub funcs: Vec<String>,
    pub marker: u32,
    /// insert status-preserving probes after the statements of `;` sequences
    pub probes: bool,
    /// write case patterns as `(a)` — needed when the program is placed inside `$( )`, where brush's
    /// tokenizer ends the substitution at the first unbalanced `)` (recorded once, under C15)
    pub paren_case: bool,
}

impl Render {
    pub fn new(probes: bool) -> Self {
        Self { funcs: vec![], marker: 0, probes, paren_case: false }
    }
    fn next(&mut self) -> u32 {
        self.marker += 1;
        self.marker
    }
    pub fn stmt(&mut self, s: &S) -> String {
        match s {
            S::Leaf(k) => {
                let m = self.next();
                match k {
                    0 => format!("ok {m}"),
                    1 => format!("ko {m}"),
                    _ => format!("rc {m} 2"),
                }
            }
            S::Ctl(k, n) => match n {
                Some(n) => format!("{k} {n}"),
                None => k.to_string(),
            },
            S::Seq(a, b) => {
                let x = self.stmt(a);
                let y = self.stmt(b);
                if self.probes { format!("{x}\npr\n{y}\npr") } else { format!("{x}\n{y}") }
            }
            S::And(a, b) => format!("{} && {}", self.andor_operand(a), self.andor_operand(b)),
            S::Or(a, b) => format!("{} || {}", self.andor_operand(a), self.andor_operand(b)),
            S::Not(a) => format!("! {}", self.pipeline_operand(a)),
            S::If(c, t) => format!("if {}; then\n{}\nfi", self.stmt(c), self.stmt(t)),
            S::IfElse(c, t, e) => format!("if {}; then\n{}\nelse\n{}\nfi", self.stmt(c), self.stmt(t), self.stmt(e)),
            S::Elif(c, t, c2, t2) => format!("if {}; then\n{}\nelif {}; then\n{}\nfi", self.stmt(c), self.stmt(t), self.stmt(c2), self.stmt(t2)),
            S::While(b) => {
                let m = self.next();
                format!("while c2 {m}; do\n{}\ndone", self.stmt(b))
            }
            S::Until(b) => {
                let m = self.next();
                format!("until d2 {m}; do\n{}\ndone", self.stmt(b))
            }
            S::For(b) => format!("for v in 1 2; do\n{}\ndone", self.stmt(b)),
            S::ForArith(b) => {
                // nested arithmetic loops need distinct counters (a shared `i` never terminates)
                let m = self.next();
                format!("for ((i{m}=0;i{m}<2;i{m}++)); do\n{}\ndone", self.stmt(b))
            }
            S::Case(a) => {
                let o = if self.paren_case { "(" } else { "" };
                format!("case a in\n{o}a) {} ;;\nesac", self.stmt(a))
            }
            S::CaseFall(a, b) => {
                let o = if self.paren_case { "(" } else { "" };
                format!("case a in\n{o}a) {} ;&\n{o}b) {} ;;\nesac", self.stmt(a), self.stmt(b))
            }
            S::CaseCont(a, b) => {
                let o = if self.paren_case { "(" } else { "" };
                format!("case a in\n{o}a) {} ;;&\n{o}*) {} ;;\nesac", self.stmt(a), self.stmt(b))
            }
            S::Group(a) => format!("{{ {}\n}}", self.stmt(a)),
            S::Sub(a) => format!("( {}\n)", self.stmt(a)),
            S::Call(a) => {
                let body = self.stmt(a);
                let name = format!("fn{}", self.funcs.len() + 1);
                self.funcs.push(format!("{name}() {{\n{body}\n}}"));
                name
            }
        }
    }
    /// operands of && / || must be pipelines: wrap lists in a brace group
    fn andor_operand(&mut self, s: &S) -> String {
        match s {
            S::Seq(..) => format!("{{ {}\n}}", self.stmt(s)),
            _ => self.stmt(s),
        }
    }
    /// the operand of `!` must be a single command
    fn pipeline_operand(&mut self, s: &S) -> String {
        match s {
            S::Seq(..) | S::And(..) | S::Or(..) | S::Not(..) => format!("{{ {}\n}}", self.stmt(s)),
            _ => self.stmt(s),
        }
    }
}

pub const PRELUDE: &str = "ok() { echo \"ok$1\"; return 0; }\nko() { echo \"ko$1\"; return 1; }\nrc() { echo \"rc$1\"; return $2; }\npr() { local s=$?; echo \"?=$s\"; return $s; }\nc2() { eval \"local n=\\${cnt$1:-0}\"; eval \"cnt$1=$((n+1))\"; echo \"c$1.$n\"; [ $n -lt 2 ]; }\nd2() { eval \"local n=\\${cnt$1:-0}\"; eval \"cnt$1=$((n+1))\"; echo \"d$1.$n\"; [ $n -ge 2 ]; }\n";

/// Full script for a program: prelude, hoisted function definitions, the program, a final probe.
pub fn script(s: &S, probes: bool) -> String {
    let mut r = Render::new(probes);
    let body = r.stmt(s);
    let mut out = String::from(PRELUDE);
    for f in &r.funcs {
        out.push_str(f);
        out.push('\n');
    }
    out.push_str(&body);
    out.push_str("\necho \"end=$?\"\n");
    out
}

pub fn tags(s: &S, out: &mut Vec<String>) {
    let mut add = |t: String| {
        if !out.contains(&t) {
            out.push(t)
        }
    };
    match s {
        S::Leaf(k) => add(format!("leaf:{}", ["ok", "ko", "rc"][(*k).min(2) as usize])),
        S::Ctl(k, n) => {
            add(format!("ctl:{k}"));
            if let Some(n) = n {
                add(format!("ctl:{k}:{n}"))
            }
        }
        S::Seq(a, b) => {
            add("seq".into());
            tags(a, out);
            tags(b, out)
        }
        S::And(a, b) => {
            add("and".into());
            tags(a, out);
            tags(b, out)
        }
        S::Or(a, b) => {
            add("or".into());
            tags(a, out);
            tags(b, out)
        }
        S::Not(a) => {
            add("not".into());
            tags(a, out)
        }
        S::If(a, b) => {
            add("if".into());
            tags(a, out);
            tags(b, out)
        }
        S::IfElse(a, b, c) => {
            add("if".into());
            add("else".into());
            tags(a, out);
            tags(b, out);
            tags(c, out)
        }
        S::Elif(a, b, c, d) => {
            add("if".into());
            add("elif".into());
            tags(a, out);
            tags(b, out);
            tags(c, out);
            tags(d, out)
        }
        S::While(a) => {
            add("while".into());
            tags(a, out)
        }
        S::Until(a) => {
            add("until".into());
            tags(a, out)
        }
        S::For(a) => {
            add("for".into());
            tags(a, out)
        }
        S::ForArith(a) => {
            add("for-arith".into());
            tags(a, out)
        }
        S::Case(a) => {
            add("case".into());
            tags(a, out)
        }
        S::CaseFall(a, b) => {
            add("case;&".into());
            tags(a, out);
            tags(b, out)
        }
        S::CaseCont(a, b) => {
            add("case;;&".into());
            tags(a, out);
            tags(b, out)
        }
        S::Group(a) => {
            add("group".into());
            tags(a, out)
        }
        S::Sub(a) => {
            add("subshell".into());
            if matches!(**a, S::Sub(_)) {
                add("subshell-in-subshell".into());
            }
            // the subshell's text ends in `esac )`
            fn ends_in_case(s: &S) -> bool {
                match s {
                    S::Case(_) | S::CaseFall(..) | S::CaseCont(..) => true,
                    S::Not(x) => ends_in_case(x),
                    S::Seq(_, b) | S::And(_, b) | S::Or(_, b) => ends_in_case(b),
                    _ => false,
                }
            }
            if ends_in_case(a) {
                add("case-in-subshell".into());
            }
            tags(a, out)
        }
        S::Call(a) => {
            add("call".into());
            tags(a, out)
        }
    }
}

/// Context tags for control commands: which constructs enclose each break/continue/return/exit.
pub fn ctl_context_tags(s: &S, in_loop: u32, in_func: bool, in_sub: bool, negated: bool, out: &mut Vec<String>) {
    let mut add = |t: String| {
        if !out.contains(&t) {
            out.push(t)
        }
    };
    match s {
        S::Leaf(_) => {}
        S::Ctl(k, n) => {
            let lvl = n.unwrap_or(1) as u32;
            match *k {
                "break" | "continue" => {
                    if in_loop == 0 {
                        add(format!("{k}:outside-loop"));
                    } else if n.is_some() && lvl > in_loop {
                        add(format!("{k}:levels>loops"));
                    }
                    if *n == Some(0) {
                        add(format!("{k}:0"));
                    }
                    if in_func && in_loop == 0 {
                        add(format!("{k}:in-func-no-loop"));
                    }
                }
                "return" => {
                    if !in_func {
                        add("return:outside-func".into());
                    }
                }
                _ => {}
            }
            if negated {
                add(format!("{k}:negated"));
            }
            if in_sub {
                add(format!("{k}:in-subshell"));
            }
        }
        S::Seq(a, b) | S::And(a, b) | S::Or(a, b) | S::If(a, b) | S::CaseFall(a, b) | S::CaseCont(a, b) => {
            ctl_context_tags(a, in_loop, in_func, in_sub, negated, out);
            ctl_context_tags(b, in_loop, in_func, in_sub, negated, out);
        }
        S::IfElse(a, b, c) => {
            for x in [a, b, c] {
                ctl_context_tags(x, in_loop, in_func, in_sub, negated, out);
            }
        }
        S::Elif(a, b, c, d) => {
            for x in [a, b, c, d] {
                ctl_context_tags(x, in_loop, in_func, in_sub, negated, out);
            }
        }
        S::Not(a) => ctl_context_tags(a, in_loop, in_func, in_sub, true, out),
        S::While(a) | S::Until(a) | S::For(a) | S::ForArith(a) => ctl_context_tags(a, in_loop + 1, in_func, in_sub, negated, out),
        S::Case(a) | S::Group(a) => ctl_context_tags(a, in_loop, in_func, in_sub, negated, out),
        S::Sub(a) => ctl_context_tags(a, 0, in_func, true, negated, out),
        // a function body is defined at top level: loops of the caller are still dynamically enclosing in
        // bash (break inside a called function affects the caller's loop)
        S::Call(a) => {
            if in_loop > 0 {
                let mut inner = vec![];
                ctl_context_tags(a, 0, true, in_sub, negated, &mut inner);
                if inner.iter().any(|t| t.contains("outside-loop") || t.contains("in-func-no-loop") || t.contains("levels>loops")) {
                    add("ctl-in-func-called-from-loop".into());
                }
            }
            ctl_context_tags(a, in_loop, true, in_sub, negated, out)
        }
    }
}
