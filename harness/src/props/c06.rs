//! C06 — parameter-expansion operators compute bash's result for every value and operand.
//! (value, operator, operand) triples enumerated exhaustively; oracles: bash (live) and, independent of
//! bash, the shortest/longest prefix/suffix law evaluated with the reference matcher.

use super::c08::{SP, ansi_c, bash_array};
use super::common;
use crate::engine::report::{Failure, Report, Tier};
use crate::engine::{bash, enumerate, globref};
use serde_json::{Value, json};

fn values() -> Vec<String> {
    let mut v = enumerate::strings(&["a", "b", " ", "*", "\n", "é"], 3);
    v.push("abcabc".into());
    v.push("a/b/c".into());
    v.push("abab".into());
    v.push("abba".into());
    for x in ["]", "a]", "]a", "\\", "a\\", "\\a", "-", "a-", "!", "[a]", "[]]"] {
        v.push(x.into());
    }
    v
}

const PAT_OPS: &[&str] = &["${v#$p}", "${v##$p}", "${v%$p}", "${v%%$p}", "${v/$p/X}", "${v//$p/X}", "${v/#$p/X}", "${v/%$p/X}"];


pub fn run(tier: Tier, _replay: Option<Value>) -> ! {
    let mut rep = Report::new("C06", tier, "exploration");
    let vals = values();
    // ---------------------------------------------------------------- pattern operators
    let plen = tier.pick(2, 3);
    let unterminated = |p: &str| -> bool {
        let cs: Vec<char> = p.chars().collect();
        (0..cs.len().saturating_sub(1)).any(|i| "?*+@!".contains(cs[i]) && cs[i + 1] == '(' && !cs[i + 2..].contains(&')'))
    };
    let mut patterns: Vec<String> = enumerate::strings(SP, plen).into_iter().filter(|p| !unterminated(p)).collect();
    // extglob groups with two alternatives (one may be a prefix/suffix of the other or itself a
    // glob), alone and followed/preceded by another piece: longest/shortest must range over ALL ways of
    // matching, not over the first alternative that fits (only meaningful with extglob on; with it off the
    // same texts are ordinary characters on both sides)
    let alts = ["a", "ab", "b", "ba", "a*", "?"];
    let mut groups: Vec<String> = vec![];
    for x in ["@", "?", "*", "+", "!"] {
        for (i, a) in alts.iter().enumerate() {
            for (j, b) in alts.iter().enumerate() {
                if i != j {
                    groups.push(format!("{x}({a}|{b})"));
                }
            }
        }
    }
    for g in &groups {
        patterns.push(g.clone());
        if tier == Tier::Thorough || g.starts_with('@') || g.starts_with('*') {
            for piece in ["b", "*", "?"] {
                patterns.push(format!("{g}{piece}"));
                patterns.push(format!("{piece}{g}"));
            }
        }
    }
    rep.set("extglob_alternation_patterns", groups.len() as u64);
    // bracket expressions with escaped members (`\]`, `\\`, `\-`, `\!`) in the pattern of every operator
    for m in ["\\]", "a\\]", "\\]a", "!\\]", "\\\\", "a\\\\", "\\-a", "a\\-c", "\\!a"] {
        patterns.push(format!("[{m}]"));
        patterns.push(format!("[{m}]*"));
        patterns.push(format!("*[{m}]"));
        patterns.push(format!("[{m}][ab]"));
    }
    let loop_body = format!("for p in \"${{P[@]}}\"; do for v in \"${{V[@]}}\"; do vargs {}; done; done\n", PAT_OPS.iter().map(|o| format!("\"{o}\"")).collect::<Vec<_>>().join(" "));
    let chunks: Vec<&[String]> = patterns.chunks(8).collect();
    for extglob in [false, true] {
        if extglob && tier == Tier::Quick && plen > 2 {
            continue;
        }
        let pre = format!("shopt -{} extglob\n", if extglob { "s" } else { "u" });
        let bcases: Vec<Value> = chunks.iter().map(|c| json!({"s": format!("{pre}{loop_body}"), "arrays": {"P": c, "V": vals}})).collect();
        let brush = common::run_scripts(&bcases, 120_000);
        let scripts: Vec<String> = chunks.iter().map(|c| format!("{}{pre}{}{}{loop_body}", bash::BASH_VARGS, bash_array("P", c), bash_array("V", &vals))).collect();
        let bashr = bash::run_files(bash::BASH, &scripts, 120_000);
        for (ci, c) in chunks.iter().enumerate() {
            let br = if brush[ci].crash.is_some() { vec![] } else { common::parse_vargs_stream(&brush[ci].out) };
            let bo_s = bashr[ci].out_str();
            let bo = common::parse_vargs_stream(&bo_s);
            for (pi, p) in c.iter().enumerate() {
                for (vi, v) in vals.iter().enumerate() {
                    let k = pi * vals.len() + vi;
                    rep.evaluations += PAT_OPS.len() as u64;
                    let want = bo.get(k).cloned().unwrap_or_default();
                    let got = match (&brush[ci].crash, br.get(k)) {
                        (Some(_), _) => vec![],
                        (None, Some(r)) => r.clone(),
                        (None, None) => vec![],
                    };
                    if want.len() != PAT_OPS.len() {
                        rep.add("bash_records_missing", 1);
                        continue;
                    }
                    for (oi, op) in PAT_OPS.iter().enumerate() {
                        let g = got.get(oi).cloned().unwrap_or_else(|| brush[ci].crash.clone().map(|c| format!("CRASH {c}")).unwrap_or_else(|| "<missing>".into()));
                        if oi == 0 {
                            rep.observe(&g);
                        }
                        if g != *v {
                            rep.nontrivial.insert(format!("{op}|{p}|{v}"));
                        }
                        let mut fail = |oracle: &str, expected: &str, rep: &mut Report| {
                            let mut tags = vec![format!("op:{op}")];
                            if p.is_empty() {
                                tags.push("pat:empty".into());
                            }
                            if p.contains('*') {
                                tags.push("pat:star".into());
                            }
                            if p.contains('[') {
                                tags.push("pat:bracket".into());
                            }
                            if p.contains('\\') {
                                tags.push("pat:backslash".into());
                            }
                            if p.contains('(') {
                                tags.push("pat:paren".into());
                            }
                            if p.chars().rev().take_while(|c| *c == '\\').count() % 2 == 1 {
                                tags.push("pat:trailing-backslash".into());
                            }
                            if p.contains("!(") && p.contains('|') {
                                tags.push("pat:negated-alternation".into());
                            }
                            if v.contains('\n') {
                                tags.push("val:newline".into());
                            }
                            if !v.is_ascii() {
                                tags.push("val:multibyte".into());
                            }
                            if v.is_empty() {
                                tags.push("val:empty".into());
                            }
                            if extglob {
                                tags.push("extglob".into());
                            }
                            if g.starts_with("CRASH") {
                                tags.push("crash".into());
                            }
                            rep.fail(Failure { case: format!("{op} p={:?} v={:?} extglob={extglob}", p, v), tags, expected: expected.to_string(), observed: g.clone(), oracle: oracle.into() });
                        };
                        // Two places where bash's substitution disagrees with bash's own matching (shown by
                        // its `#`/`%` operators on the same pattern and value) are not used as an oracle:
                        // a pattern ending in an escaped `\*` never matches in ${v/p/r} (bash takes the last
                        // character for an unescaped star when it anchors the pattern), and an extglob group
                        // with no alternative at all, `?()`, matches "" for removal but not for replacement.
                        // Likewise, on an EMPTY value bash replaces with `*` and with `/%?(b)` but not with
                        // `/?(b)`, `/#?(b)`, `//?(b)`, and `/%!(a|b)` never takes the empty suffix although
                        // `/#!(a|b)` takes the empty prefix.
                        let has_group = ["@(", "?(", "*(", "+(", "!("].iter().any(|g| p.contains(g));
                        // And with an unterminated `[` in the pattern and a `]` in the value (`p='[*'`, `v='[a]'`)
                        // `##`/`%%`/`[[ ]]` take the whole value while `/` replaces only `[a`.
                        let open_bracket = p.rfind('[').map(|i| !p[i..].contains(']')).unwrap_or(false);
                        let bash_quirk = oi >= 4
                            && (p.ends_with("\\*") || p.contains("()") || (extglob && has_group && v.is_empty()) || (extglob && oi == 7 && p.contains("!(")) || (open_bracket && v.contains(']')));
                        if bash_quirk {
                            rep.add("substitution_rows_skipped_bash_inconsistent_with_itself", 1);
                        } else if g != want[oi] {
                            fail("bash", &want[oi], &mut rep);
                        }
                        // the bash-independent law for # ## % %%
                        if oi < 4 {
                            let r = globref::remove(p, v, oi >= 2, oi % 2 == 1, extglob);
                            if r == want[oi] {
                                rep.add("law_rows_where_reference_agrees_with_bash", 1);
                                if g != r && g == want[oi] {
                                    unreachable!();
                                }
                            } else {
                                rep.add("law_rows_where_reference_disagrees_with_bash", 1);
                            }
                            if g != r && r == want[oi] {
                                // already reported against bash; count as a law violation too
                                rep.add("law_violations", 1);
                            } else if g != r && g != want[oi] {
                                fail("law", &r, &mut rep);
                            }
                        }
                    }
                }
            }
        }
    }
    // ---------------------------------------------------------------- replacement texts
    // The replacement of ${v/p/r} is text (after expansion), apart from bash 5.2's unquoted `&`: every
    // replacement of <= 2 symbols over the characters a regex engine or a substitution routine could
    // take for syntax, unquoted and quoted, for every substitution operator.
    {
        let rsyms = ["a", "$", "0", "1", "&", "\\", "/", "{", "}"];
        let reps: Vec<String> = enumerate::strings(&rsyms, tier.pick(2, 3));
        let rpats = ["a", "*", "?", "", "a*", "[ab]", "b"];
        let rvals: Vec<String> = ["", "a", "ab", "aab", "é", "ba"].iter().map(|s| s.to_string()).collect();
        let rops = ["${v/$p/$r}", "${v//$p/$r}", "${v/#$p/$r}", "${v/%$p/$r}", "${v/$p/\"$r\"}", "${v//$p/\"$r\"}", "${v/#$p/\"$r\"}", "${v/%$p/\"$r\"}"];
        let body = format!("for r in \"${{R[@]}}\"; do for p in \"${{P[@]}}\"; do for v in \"${{V[@]}}\"; do vargs {}; done; done; done\n", rops.iter().map(|o| format!("\"{o}\"")).collect::<Vec<_>>().join(" "));
        let rchunks: Vec<&[String]> = reps.chunks(16).collect();
        let rp: Vec<String> = rpats.iter().map(|s| s.to_string()).collect();
        let bcases: Vec<Value> = rchunks.iter().map(|c| json!({"s": format!("set -f\n{body}"), "arrays": {"R": c, "P": rp, "V": rvals}})).collect();
        let brush = common::run_scripts(&bcases, 120_000);
        let scripts: Vec<String> = rchunks.iter().map(|c| format!("{}set -f\n{}{}{}{body}", bash::BASH_VARGS, bash_array("R", c), bash_array("P", &rp), bash_array("V", &rvals))).collect();
        let bashr = bash::run_files(bash::BASH, &scripts, 120_000);
        for (ci, c) in rchunks.iter().enumerate() {
            let br = if brush[ci].crash.is_some() { vec![] } else { common::parse_vargs_stream(&brush[ci].out) };
            let bo_s = bashr[ci].out_str();
            let bo = common::parse_vargs_stream(&bo_s);
            let mut k = 0;
            for r in c.iter() {
                for p in &rp {
                    for v in &rvals {
                        let want = bo.get(k).cloned().unwrap_or_default();
                        let got = br.get(k).cloned().unwrap_or_default();
                        k += 1;
                        if want.len() != rops.len() {
                            rep.add("bash_records_missing", 1);
                            continue;
                        }
                        for (oi, op) in rops.iter().enumerate() {
                            rep.evaluations += 1;
                            let g = got.get(oi).cloned().unwrap_or_else(|| brush[ci].crash.clone().map(|c| format!("CRASH {c}")).unwrap_or_else(|| "<missing>".into()));
                            if g != *v {
                                rep.nontrivial.insert(format!("{op}|{p}|{v}|{r}"));
                            }
                            if g != want[oi] {
                                let mut tags = vec![format!("op:{op}"), "replacement".to_string()];
                                if r.contains('&') {
                                    tags.push(if oi < 4 { "rep:unquoted-amp".into() } else { "rep:quoted-amp".into() });
                                }
                                if r.contains('\\') {
                                    tags.push("rep:backslash".into());
                                }
                                if r.contains('$') {
                                    tags.push("rep:dollar".into());
                                }
                                if p.is_empty() {
                                    tags.push("pat:empty".into());
                                }
                                rep.fail(Failure { case: format!("{op} p={:?} v={:?} r={:?}", p, v, r), tags, expected: want[oi].clone(), observed: g, oracle: "bash".into() });
                            }
                        }
                    }
                }
            }
        }
        rep.set("replacement_texts", reps.len() as u64);
    }
    // ---------------------------------------------------------------- all other operators, one script per form
    let small: Vec<String> = vec!["", "a", " a b ", "abcabc", "é*\n", "aBc", "a b", "*"].into_iter().map(String::from).collect();
    let offs = ["-4", "-3", "-2", "-1", "0", "1", "2", "3", "4", "99", "1+1", "n"];
    let mut forms: Vec<(String, &str)> = vec![];
    for o in offs {
        let sp = if o.starts_with('-') { " " } else { "" };
        forms.push((format!("${{v:{sp}{o}}}"), "substring"));
        for l in offs {
            let lsp = if l.starts_with('-') { " " } else { "" };
            forms.push((format!("${{v:{sp}{o}:{lsp}{l}}}"), "substring"));
        }
    }
    for w in ["", "d", "d e", "\"d e\"", "$y", "'q'"] {
        for op in ["-", ":-", "+", ":+", "=", ":=", "?", ":?"] {
            forms.push((format!("${{v{op}{w}}}"), "default-family"));
        }
    }
    for f in ["${#v}", "${v^}", "${v^^}", "${v,}", "${v,,}", "${v~}", "${v~~}", "${v^a}", "${v^^[ab]}", "${v,,B}", "${v@Q}", "${v@U}", "${v@L}", "${v@u}", "${v@E}", "${v@A}", "${v@a}", "${v@P}", "${!r}", "${!r@Q}", "${#r}"] {
        forms.push((f.to_string(), "misc"));
    }
    // states of the variable: set to each value / null / unset / declared-but-unset
    let states: Vec<(String, String)> = {
        let mut s: Vec<(String, String)> = small.iter().map(|v| (format!("set:{:?}", v), format!("v={}", ansi_c(v)))).collect();
        s.push(("unset".into(), "unset v".into()));
        s.push(("declared-unset".into(), "unset v; declare v".into()));
        s
    };
    // the same operators reached through another access path: indirection, an array element, a positional
    // parameter (the state of `v` is mirrored into the element / the positional parameter first)
    const PATHS: &[(&str, &str, &str)] = &[
        ("direct", "${v", ""),
        ("indirect", "${!r", ""),
        ("element", "${a[1]", "unset a; [[ ${v+x} ]] && a[1]=$v; "),
        ("positional", "${1", "if [[ ${v+x} ]]; then set -- \"$v\"; else set --; fi; "),
        ("assoc-element", "${m[k]", "unset m; declare -A m; [[ ${v+x} ]] && m[k]=$v; "),
        ("assoc-element-spaced-key", "${m[a b]", "unset m; declare -A m; [[ ${v+x} ]] && m[\"a b\"]=$v; "),
    ];
    let mk_script = |form: &str, nounset: bool| -> String {
        // pathname expansion is not the subject here (and the two shells' directories differ by s.sh)
        let mut s = String::from("set -f; y='y z'; n=2; r=v\n");
        let mirror = PATHS.iter().find(|p| p.0 != "direct" && p.0 != "indirect" && form.starts_with(p.1)).map(|p| p.2).unwrap_or("");
        for (k, (_, setup)) in states.iter().enumerate() {
            // (nounset is switched on after the state has been mirrored)
            let nu = if nounset { "set -u; " } else { "" };
            s.push_str(&format!("echo \"#{k}\"\n( {setup}; {mirror}{nu}vargs {form} \"{form}\"; set +u; echo \"v=<${{v-UNSET}}> a1=<${{a[1]-UNSET}}> n=$# mk=<${{m[k]-UNSET}}> mab=<${{m[a b]-UNSET}}> keys=<${{!m[@]}}>\" ); echo \"s=$?\"\n"));
        }
        s.push_str("echo \"#E\"\n");
        s
    };
    let mut fcases: Vec<(String, &str, bool)> = vec![];
    for (f, kind) in &forms {
        for (pn, repl, _) in PATHS {
            // `${!r}`-style forms of the misc list are already indirect; `${#r}` stays as it is
            if *pn != "direct" && (!f.starts_with("${v") || (*kind == "substring" && tier == Tier::Quick)) {
                continue;
            }
            let f2 = if *pn == "direct" { f.clone() } else { f.replacen("${v", repl, 1) };
            let kind2: &str = if *pn == "direct" { kind } else { Box::leak(format!("{kind}/{pn}").into_boxed_str()) };
            fcases.push((f2.clone(), kind2, false));
            if !kind.starts_with("substring") || tier == Tier::Thorough {
                fcases.push((f2, kind2, true));
            }
        }
    }
    // arrays, positional lists, associative arrays
    let targets: &[(&str, &str)] = &[
        ("positional", "set -- a 'b c' '' d; T=@"),
        ("positional-star", "set -- a 'b c' '' d; T=*"),
        ("indexed", "T=(a 'b c' '' d)"),
        ("indexed-hole", "T=([1]=a [3]='b c' [7]=d)"),
        ("assoc-one", "declare -A T=([k]='b c')"),
        ("empty-array", "T=()"),
        // lists whose only element(s) are empty strings: "null" for the colon operators is about the expansion
        // as a whole, not the number of elements
        ("positional-one-empty", "set -- ''; T=@"),
        ("positional-star-one-empty", "set -- ''; T=*"),
        ("positional-two-empty", "set -- '' ''; T=@"),
        ("positional-star-two-empty", "set -- '' ''; T=*"),
        ("indexed-one-empty", "T=('')"),
        ("indexed-star-one-empty", "T=('')"),
        ("indexed-hole-one-empty", "T=([3]='')"),
        ("assoc-one-empty", "declare -A T=([k]='')"),
        ("assoc-star-one-empty", "declare -A T=([k]='')"),
        ("indexed-star", "T=(a 'b c' '' d)"),
    ];
    let aforms = ["${#X}", "${X:1}", "${X:1:2}", "${X: -1}", "${X:0:1}", "${X:2:0}", "${X:9}", "${X:0:-1}", "${X#a}", "${X%c}", "${X/b/Q}", "${X//b/Q}", "${X^^}", "${X@Q}", "${X@U}", "${X@A}", "${X@a}", "${!X}", "${X-d}", "${X:+alt}", "${X:-d}", "\"${X:1:2}\"", "\"${X#a}\"", "\"${X@Q}\"", "${X+alt}", "${X:?msg}", "${X?msg}", "\"${X:-d}\"", "\"${X:+alt}\"", "\"${X-d}\"", "\"${X+alt}\""];
    let mut ascripts: Vec<(String, String)> = vec![];
    for (tn, setup) in targets {
        let x = if tn.starts_with("positional") { setup.rsplit('=').next().unwrap().to_string() } else if tn.contains("-star") { "T[*]".to_string() } else { "T[@]".to_string() };
        let mut s = String::from("set -f\n");
        for (k, f) in aforms.iter().enumerate() {
            let f = if *f == "${!X}" && !tn.starts_with("positional") { format!("${{!{x}}}") } else { f.replace('X', &x) };
            let setup_cmd = if tn.starts_with("positional") { setup.rsplit_once(';').unwrap().0.to_string() } else { setup.to_string() };
            s.push_str(&format!("echo \"#{k}\"\n( {setup_cmd}; vargs {f} ); echo \"s=$?\"\n"));
        }
        s.push_str("echo \"#E\"\n");
        ascripts.push((tn.to_string(), s));
    }
    let mut scripts: Vec<String> = fcases.iter().map(|(f, _, nu)| mk_script(f, *nu)).collect();
    scripts.extend(ascripts.iter().map(|a| a.1.clone()));
    let bcases: Vec<Value> = scripts.iter().map(|s| json!({"s": s})).collect();
    let brush = common::run_scripts(&bcases, 60_000);
    let bscripts: Vec<String> = scripts.iter().map(|s| format!("{}{s}", bash::BASH_VARGS)).collect();
    let bashr = bash::run_files(bash::BASH, &bscripts, 60_000);
    let sections = |out: &str| -> Vec<String> {
        let mut v = vec![];
        let mut cur = String::new();
        let mut started = false;
        for line in out.split_inclusive('\n') {
            let is_marker = line.starts_with('#') && line.ends_with('\n') && line.len() > 2 && (line[1..line.len() - 1].chars().all(|c| c.is_ascii_digit()) || line == "#E\n");
            if is_marker {
                if started {
                    v.push(std::mem::take(&mut cur));
                }
                started = true;
            } else {
                cur.push_str(line);
            }
        }
        v
    };
    for (i, s) in scripts.iter().enumerate() {
        let (label, kind, nounset, nsec): (String, String, bool, usize) = if i < fcases.len() { (fcases[i].0.clone(), fcases[i].1.to_string(), fcases[i].2, states.len()) } else { (format!("array forms on {}", ascripts[i - fcases.len()].0), "array".into(), false, aforms.len()) };
        let want = sections(&bashr[i].out_str());
        if want.len() != nsec {
            rep.add("bash_sections_missing", 1);
            continue;
        }
        let got = if brush[i].crash.is_some() { vec![] } else { sections(&brush[i].out) };
        for k in 0..nsec {
            rep.evaluations += 1;
            let g = got.get(k).cloned().unwrap_or_else(|| brush[i].crash.clone().map(|c| format!("CRASH {c}")).unwrap_or_else(|| "<missing>".into()));
            rep.observe(&g);
            let sub = if i < fcases.len() { states[k].0.clone() } else { aforms[k].to_string() };
            rep.nontrivial.insert(format!("{label}|{sub}|{nounset}"));
            // stderr text is not compared; "fails where bash fails" = same status, no output where bash has none
            if g != want[k] {
                let mut tags = vec![format!("kind:{}", kind.split('/').next().unwrap_or(""))];
                if i < fcases.len() {
                    // the form tag names the operator as written on `v`; the access path is a tag of its own
                    let direct_form = if label.starts_with("${!r") && kind.contains('/') {
                        label.replacen("${!r", "${v", 1)
                    } else if label.starts_with("${a[1]") {
                        label.replacen("${a[1]", "${v", 1)
                    } else if label.starts_with("${1") && kind.contains('/') {
                        label.replacen("${1", "${v", 1)
                    } else if label.starts_with("${m[k]") {
                        label.replacen("${m[k]", "${v", 1)
                    } else if label.starts_with("${m[a b]") {
                        label.replacen("${m[a b]", "${v", 1)
                    } else {
                        label.clone()
                    };
                    tags.push(format!("form:{direct_form}"));
                    if let Some((_, path)) = kind.split_once('/') {
                        tags.push(format!("path:{path}"));
                    }
                    tags.push(format!("state:{}", states[k].0.split(':').next().unwrap_or("")));
                } else {
                    tags.push(format!("target:{}", ascripts[i - fcases.len()].0));
                    tags.push(format!("form:{}", aforms[k]));
                }
                if nounset {
                    tags.push("nounset".into());
                }
                if g.starts_with("CRASH") {
                    tags.push("crash".into());
                }
                rep.fail(Failure { case: format!("{label} [{sub}] nounset={nounset}\n{s}"), tags, expected: want[k].replace('\0', "␀"), observed: g.replace('\0', "␀"), oracle: "bash".into() });
            }
        }
    }
    rep.set("patterns", patterns.len() as u64);
    rep.set("values", vals.len() as u64);
    rep.set("scalar_forms", forms.len() as u64);
    rep.sample(json!({"op": "${v#$p}", "p": "a*", "v": "abcabc"}));
    rep.sample(json!({"form": "${v: -3:-1}", "states": states.iter().map(|s| s.0.clone()).collect::<Vec<_>>()}));
    rep.sample(json!({"form": "${T[@]:1:2}", "target": "indexed-hole"}));
    rep.rule = format!(
        "pattern operators # ## % %% / // /# /% x all patterns over the C08 alphabet with <= {plen} symbols x all values over {{a b space * newline é}} with <= 3 symbols (+ abcabc, a/b/c), extglob off/on; substring forms with offset and length from {{-4..4, 99, 1+1, n}}; the default family x 6 words; case modification, length, indirection and @-transforms; each x variable states (8 values, unset, declared-unset) with and without nounset; 24 forms on positional lists, indexed arrays (with holes), associative and empty arrays; non-trivial = result differs from the value / distinct (form, state)"
    );
    rep.assumptions.push("bash 5.2.15 is the oracle; the law check uses the reference matcher only on rows where it agrees with bash (counted)".into());
    rep.finish()
}
