//! C02 — control flow and `$?` of compound commands equal bash's.
//! All programs of the typed control-flow grammar up to a size bound, scripted leaves, status probes;
//! run as script files through `Shell::run_script` (in-process) and through bash; traces compared.

use super::cfgrammar::{self as g, S};
use super::common;
use crate::engine::bash;
use crate::engine::report::{Failure, Report, Tier};
use serde_json::{Value, json};

pub fn programs(tier: Tier) -> Vec<S> {
    if let Ok(n) = std::env::var("VCHECK_C02_MAX") {
        return g::up_to(n.parse().unwrap_or(2), &g::leaves_full());
    }
    let mut v = g::up_to(tier.pick(3, 4), &g::leaves_full());
    let mut memo = std::collections::HashMap::new();
    let n = tier.pick(4, 5);
    let red = g::leaves_reduced();
    let extra = g::exact(n, &red, &mut memo);
    let have: std::collections::HashSet<S> = v.iter().cloned().collect();
    v.extend(extra.into_iter().filter(|p| !have.contains(p)));
    v
}

pub fn run(tier: Tier, replay: Option<Value>) -> ! {
    let mut rep = Report::new("C02", tier, "exploration");
    let (progs, scripts): (Vec<Option<S>>, Vec<String>) = if let Some(r) = &replay {
        rep.replay_mode = true;
        (vec![None], vec![r["case"].as_str().unwrap_or("").to_string()])
    } else {
        let p = programs(tier);
        let s = p.iter().map(|x| g::script(x, true)).collect();
        (p.into_iter().map(Some).collect(), s)
    };
    // the full case matrix: three arms, every terminator pair, every (matching / non-matching / default)
    // pattern combination, bodies with distinct statuses, alone and inside a loop
    let (mut progs, mut scripts) = (progs, scripts);
    let mut matrix_tags: std::collections::HashMap<usize, Vec<String>> = Default::default();
    if replay.is_none() {
        // and-or chains of 3 and 4 operands: every assignment of {ok, ko, rc n} x every choice of && / ||,
        // alone, as an if condition and as a while condition (left-associative, equal precedence, skipped
        // operands do not end the list)
        for n in 3..=4usize {
            for leaves in 0..3usize.pow(n as u32) {
                for ops in 0..(1u32 << (n - 1)) {
                    let mut text = String::new();
                    let mut l = leaves;
                    for k in 0..n {
                        if k > 0 {
                            text.push_str(if ops >> (k - 1) & 1 == 1 { " && " } else { " || " });
                        }
                        text.push_str(&match l % 3 {
                            0 => format!("ok {}", k + 1),
                            1 => format!("ko {}", k + 1),
                            _ => format!("rc {} {}", k + 1, k + 4),
                        });
                        l /= 3;
                    }
                    if n == 4 && leaves % 2 == 1 {
                        continue; // (4 operands: every other leaf assignment, to bound the count)
                    }
                    for (wn, body) in [("plain", format!("{text}\npr")), ("if-cond", format!("if {text}; then ok 8; else ok 9; fi\npr")), ("while-cond", format!("while {text}; do ok 8; break; done\npr"))] {
                        scripts.push(format!("{}{body}\necho \"end=$?\"\n", g::PRELUDE));
                        progs.push(None);
                        matrix_tags.insert(scripts.len() - 1, vec!["andor-chain".to_string(), format!("operands:{n}"), format!("in:{wn}")]);
                    }
                }
            }
        }
        // control transfers in CONDITION positions: every place a command list is evaluated for its status
        // (if / elif / while / until conditions, both sides of && and ||, a negated list, a case word's
        // command substitution) holding each transfer command, inside 1 or 2 loops and a function
        let transfers = ["break", "continue", "break 2", "continue 2", "return 3", "{ ko 8; break; }", "{ ok 8 && continue; }"];
        let positions: &[(&str, &str)] = &[
            ("if-cond", "if @T@; then ok 1; else ok 2; fi"),
            ("elif-cond", "if ko 1; then ok 2; elif @T@; then ok 3; else ok 4; fi"),
            ("elif2-cond", "if ko 1; then ok 2; elif ko 3; then ok 4; elif @T@; then ok 5; fi"),
            ("while-cond", "while @T@; do ok 1; break; done"),
            ("until-cond", "until @T@; do ok 1; break; done"),
            ("and-left", "@T@ && ok 1"),
            ("and-right", "ok 1 && @T@"),
            ("or-right", "ko 1 || @T@"),
            ("negated", "! @T@"),
            ("if-body-after-cond", "if ok 1; then @T@; fi"),
            ("case-body", "case a in a) @T@ ;; esac"),
            ("group", "{ @T@; }"),
            ("nested-if-cond", "if if @T@; then ok 1; fi; then ok 2; fi"),
        ];
        let enclosures: &[(&str, &str, &str)] = &[
            ("loop", "for v in 1 2; do\n", "\npr\nok 9\ndone"),
            ("loop-in-loop", "for u in 1 2; do\nfor v in 1 2; do\n", "\npr\nok 9\ndone\npr\ndone"),
            ("while-loop", "while c2 7; do\n", "\npr\nok 9\ndone"),
            ("func-in-loop", "fq() {\n", "\npr\nok 9\n}\nfor v in 1 2; do fq; pr; done"),
        ];
        for t in transfers {
            for (pn, ptext) in positions {
                for (en, eo, ec) in enclosures {
                    let body = format!("{eo}{}{ec}", ptext.replace("@T@", t));
                    scripts.push(format!("{}{body}\necho \"end=$?\"\n", g::PRELUDE));
                    progs.push(None);
                    let mut mt = vec!["ctl-in-condition".to_string(), format!("pos:{pn}"), format!("encl:{en}"), format!("transfer:{}", t.replace(['{', '}', ';'], "").trim().replace(' ', "-"))];
                    // the descriptor tags the grammar programs use for the same situations
                    let kw = if t.contains("continue") { "continue" } else if t.contains("break") { "break" } else { "return" };
                    let levels = if t.ends_with(" 2") { 2 } else { 1 };
                    let loops = match *en {
                        "loop-in-loop" => 2,
                        "func-in-loop" => 0,
                        _ => 1,
                    } + usize::from(pn.starts_with("while") || pn.starts_with("until"));
                    if kw != "return" {
                        if *en == "func-in-loop" {
                            mt.push("ctl-in-func-called-from-loop".into());
                        }
                        if loops == 0 {
                            mt.push(format!("{kw}:outside-loop"));
                        } else if levels > loops {
                            mt.push(format!("{kw}:levels>loops"));
                        }
                    }
                    matrix_tags.insert(scripts.len() - 1, mt);
                }
            }
        }
    }
    if replay.is_none() {
        let terms = [";;", ";&", ";;&"];
        let pats = ["a", "b", "*"];
        for p1 in ["a", "b"] {
            for t1 in terms {
                for t2 in terms {
                    for p2 in pats {
                        for p3 in pats {
                            for (bk, bodies) in [("rc", ["rc 1 4", "rc 2 5", "rc 3 6"]), ("mixed", ["ok 1", "ko 2", "ok 3"]), ("ctl", ["rc 1 4", "break", "rc 3 6"])] {
                                for wrap in ["plain", "loop"] {
                                    if bk == "ctl" && wrap == "plain" {
                                        continue;
                                    }
                                    let case = format!("case a in\n{p1}) {} {t1}\n{p2}) {} {t2}\n{p3}) {} ;;\nesac", bodies[0], bodies[1], bodies[2]);
                                    let body = if wrap == "loop" { format!("for v in 1 2; do\n{case}\npr\ndone") } else { case };
                                    scripts.push(format!("{}{body}\necho \"end=$?\"\n", g::PRELUDE));
                                    progs.push(None);
                                    matrix_tags.insert(scripts.len() - 1, vec!["case-matrix".to_string()]);
                                }
                            }
                        }
                    }
                }
            }
        }
    }
    let cases: Vec<Value> = scripts.iter().map(|s| json!({"s": s, "mode": "file"})).collect();
    let t0 = std::time::Instant::now();
    let brush = common::run_scripts(&cases, 5_000);
    eprintln!("  brush side: {:.1}s", t0.elapsed().as_secs_f64());
    let t0 = std::time::Instant::now();
    let bashr = bash::run_files(bash::BASH, &scripts, 4_000);
    eprintln!("  bash side: {:.1}s", t0.elapsed().as_secs_f64());
    for i in 0..scripts.len() {
        rep.evaluations += 1;
        let b = &brush[i];
        let o = &bashr[i];
        if o.timed_out {
            rep.add("bash_timeouts_skipped", 1);
            continue;
        }
        let want = format!("{}status={}", o.out_str(), o.status);
        let got = match &b.crash {
            Some(c) => format!("CRASH {c}"),
            None => format!("{}status={}", b.out, b.status),
        };
        rep.observe(&got);
        let body = scripts[i].strip_prefix(g::PRELUDE).unwrap_or(&scripts[i]).to_string();
        if b.out.lines().count() > 2 {
            rep.nontrivial.insert(body.clone());
        }
        if i % (scripts.len() / 6).max(1) == 0 {
            rep.sample(json!({"program": body, "bash": want}));
        }
        if got != want {
            let mut tags = vec![];
            if let Some(mt) = matrix_tags.get(&i) {
                tags.extend(mt.iter().cloned());
            }
            if let Some(p) = &progs[i] {
                g::ctl_context_tags(p, 0, false, false, false, &mut tags);
                let mut t2 = vec![];
                g::tags(p, &mut t2);
                // construct tags only when no control-command context tag explains the case
                if tags.is_empty() {
                    tags = t2;
                }
            }
            if b.crash.is_some() {
                tags.push("crash".into());
            }
            if (o.err_str().contains("syntax error")) != (b.err.contains("syntax error") || b.err.contains("parse")) {
                tags.push("syntax-error-mismatch".into());
            }
            rep.fail(Failure { case: scripts[i].clone(), tags, expected: want, observed: got, oracle: "bash".into() });
        }
    }
    rep.rule = format!(
        "all programs of the control-flow grammar (lists ; && || !, if/elif/else, while, until, for, arithmetic for, case with ;; ;& ;;& (plus the full three-arm case matrix: terminator pairs x pattern combinations x bodies, alone and in a loop), groups, subshells, function calls, break/continue/return/exit with n in {{absent,0,1,2,3}}) with <= {} nodes over the full leaf set plus all programs of exactly {} nodes over a 9-leaf subset; leaves print markers, a status-preserving probe follows every statement of a sequence; run as script files; non-trivial = more than two output lines",
        tier.pick(3, 4),
        tier.pick(4, 5)
    );
    rep.assumptions.push("bash 5.2.15 is the oracle; programs whose bash run times out are skipped and counted".into());
    rep.finish()
}
