//! C05 — unquoted words expand to the same argument lists as in bash.
//! All words of <= N pieces over 26 piece kinds x variable values x positional lists x IFS settings x
//! directory trees; brush in-process (capturing builtin) vs bash (live).

use super::c08::bash_array;
use super::common;
use crate::engine::bash;
use crate::engine::report::{Failure, Report, Tier};
use serde_json::{Value, json};

pub const PIECES: &[(&str, &str)] = &[
    ("lit", "lit"),
    ("sq", "'q r'"),
    ("dq-var", "\"$v\""),
    ("var", "$v"),
    ("brace-var", "${v}"),
    ("at", "$@"),
    ("dq-at", "\"$@\""),
    ("star", "$*"),
    ("dq-star", "\"$*\""),
    ("arr-at", "${a[@]}"),
    ("dq-arr-at", "\"${a[@]}\""),
    ("arr-star", "${a[*]}"),
    ("cmdsub", "$(echo x  y)"),
    ("dq-cmdsub", "\"$(echo x  y)\""),
    ("arith", "$((1+1))"),
    ("brace-list", "{p,q}"),
    ("brace-range", "{1..3}"),
    ("tilde", "~"),
    ("glob-star", "*"),
    ("glob-q", "?"),
    ("glob-bracket", "[ab]"),
    ("esc-star", "\\*"),
    ("default-unq", "${v:-d e}"),
    ("default-dq", "${u:-\"d e\"}"),
    ("alt", "${v:+alt}"),
    ("empty-dq", "\"\""),
    // substitutions whose output ends in blanks before the newline (only newlines are trimmed)
    ("dq-cmdsub-var", "\"$(echo \"$v\")\""),
    ("cmdsub-var", "$(echo \"$v\")"),
    ("dq-backquote-var", "\"`printf '%s\\n\\n' \"$v\"`\""),
];

const VALUES: &[&str] = &["", " ", "x", " x  y ", "a*", "\\a"];
const POSITIONALS: &[&[&str]] = &[&[], &[""], &["a"], &["a b", ""], &["", "c"], &["x", "", " y "]];
const IFSS: &[(&str, &str)] = &[("unset", "unset IFS"), ("default", "IFS=$' \\t\\n'"), ("space", "IFS=' '"), ("newline", "IFS=$'\\n'"), ("empty", "IFS=")];

pub fn words(n: usize) -> Vec<(String, Vec<usize>)> {
    let mut out = vec![];
    let k = PIECES.len();
    for len in 1..=n {
        for idx in crate::engine::enumerate::product(&vec![k; len]) {
            let w: String = idx.iter().map(|i| PIECES[*i].1).collect();
            out.push((w, idx));
        }
    }
    out
}

pub fn run(tier: Tier, _replay: Option<Value>) -> ! {
    let mut rep = Report::new("C05", tier, "exploration");
    let mut ws = words(tier.pick(2, 3));
    // one double-quoted piece composed of several expansions: quoting inside the word of a default/alternate
    // value, arrays, substitutions and escapes must each keep their own rule inside the same pair of quotes.
    // (idx = PIECES.len() + position in INNER marks these words for the tags)
    const INNER: &[(&str, &str)] = &[
        ("lit", "x"),
        ("var", "$v"),
        ("default-dq", "${u:-\"d e\"}"),
        ("default-sq", "${u:-'q r'}"),
        ("default-esc", "${u:-\\q}"),
        ("default-tilde", "${u:-~}"),
        ("alt-dq", "${v:+\"a b\"}"),
        ("alt-sq", "${v:+'s t'}"),
        ("cmdsub", "$(echo x  y)"),
        ("at", "$@"),
        ("arr-at", "${a[@]}"),
        ("esc-dollar", "\\$"),
        ("default-var", "${u:-$v}"),
    ];
    let inner_n = tier.pick(2, 3);
    for len in 1..=inner_n {
        for idx in crate::engine::enumerate::product(&vec![INNER.len(); len]) {
            // at least one default/alternate piece (the others are covered by the plain pieces)
            if !idx.iter().any(|i| INNER[*i].0.starts_with("default") || INNER[*i].0.starts_with("alt")) {
                continue;
            }
            let inner: String = idx.iter().map(|i| INNER[*i].1).collect();
            ws.push((format!("\"{inner}\""), idx.iter().map(|i| PIECES.len() + i).collect()));
            if len <= 2 {
                ws.push((format!("$v\"{inner}\"lit"), idx.iter().map(|i| PIECES.len() + i).collect()));
            }
        }
    }
    let piece_name = |i: usize| -> String { if i < PIECES.len() { PIECES[i].0.to_string() } else { format!("in-dq:{}", INNER[i - PIECES.len()].0) } };
    let trees: Vec<Vec<(&str, &str)>> = vec![vec![("a", ""), ("ab", ""), ("b", ""), (".h", ""), ("x y", ""), ("lit", "")], vec![]];
    let mut body = String::new();
    for (k, (w, _)) in ws.iter().enumerate() {
        body.push_str(&format!("echo \"#{k}\"\nvargs {w}\n"));
    }
    body.push_str("echo \"#E\"\n");
    struct Cfg {
        v: usize,
        p: usize,
        i: usize,
        t: usize,
    }
    let mut cfgs = vec![];
    for v in 0..VALUES.len() {
        for p in 0..POSITIONALS.len() {
            for i in 0..IFSS.len() {
                for t in 0..trees.len() {
                    // the empty tree is combined with the default IFS and the first two values only at the quick tier
                    if tier == Tier::Quick && t == 1 && !(i <= 1 && p <= 2) {
                        continue;
                    }
                    cfgs.push(Cfg { v, p, i, t });
                }
            }
        }
    }
    let prelude = |c: &Cfg| -> String {
        let pos: Vec<String> = POSITIONALS[c.p].iter().map(|s| s.to_string()).collect();
        format!(
            "HOME=/vhome\nv={}\nunset u\na=(\"$v\" 'p q' '')\n{}set -- \"${{POS[@]}}\"\n{}\n",
            super::c08::ansi_c(VALUES[c.v]),
            bash_array("POS", &pos),
            IFSS[c.i].1
        )
    };
    let brush_cases: Vec<Value> = cfgs
        .iter()
        .map(|c| {
            let files: serde_json::Map<String, Value> = trees[c.t].iter().map(|(k, v)| (k.to_string(), Value::String(v.to_string()))).collect();
            json!({"s": format!("{}{}", prelude(c), body), "files": files})
        })
        .collect();
    let brush = common::run_scripts(&brush_cases, 300_000);
    let specs: Vec<crate::engine::procs::ProcSpec> = cfgs
        .iter()
        .map(|c| {
            // files are created by bash itself inside a sub-directory so that the script file is not matched
            let mk: String = trees[c.t].iter().map(|(n, _)| format!(": > {}\n", bash::sq(n))).collect();
            let mut sp = bash::spec_file(bash::BASH, &format!("{}cd sub || exit 9\n{mk}{}{}", bash::BASH_VARGS, prelude(c), body), 300_000);
            sp.files.push(("sub/.keep-dir-placeholder".into(), vec![]));
            sp
        })
        .collect();
    let bashr = crate::engine::procs::run_many(&specs, bash::procs_par());
    let split = |out: &str| -> Vec<String> {
        let mut v = vec![];
        let mut cur = String::new();
        let mut started = false;
        for line in out.split_inclusive('\n') {
            let is_marker = line.starts_with('#') && line.ends_with('\n') && (line[1..line.len() - 1].chars().all(|c| c.is_ascii_digit()) && line.len() > 2 || line == "#E\n");
            if is_marker {
                if started {
                    v.push(std::mem::take(&mut cur));
                }
                started = true;
            } else {
                cur.push_str(line);
            }
        }
        v
    };
    for (ci, c) in cfgs.iter().enumerate() {
        let desc_cfg = format!("v={:?} $@={:?} IFS={} tree={}", VALUES[c.v], POSITIONALS[c.p], IFSS[c.i].0, if c.t == 0 { "files" } else { "empty" });
        if let Some(cr) = &brush[ci].crash {
            rep.fail(Failure { case: format!("<whole script> {desc_cfg}"), tags: vec!["crash".into()], expected: "".into(), observed: cr.clone(), oracle: "no-crash".into() });
            continue;
        }
        // the placeholder file is only there to create the directory; remove it from bash's view
        let bo = bashr[ci].out_str();
        let a = split(&brush[ci].out);
        let b = split(&bo);
        if b.len() != ws.len() {
            crate::engine::report::machinery_fail(&format!("bash produced {} sections for {} words ({desc_cfg}); stderr: {}", b.len(), ws.len(), crate::engine::report::truncate(&bashr[ci].err_str(), 400)));
        }
        for (k, (w, idx)) in ws.iter().enumerate() {
            rep.evaluations += 1;
            let got = a.get(k).cloned().unwrap_or_else(|| "<missing>".into());
            let want = &b[k];
            rep.observe(&got);
            if want.matches('\0').count() != 2 {
                rep.nontrivial.insert(format!("{w}|{}", ci));
            }
            if &got != want {
                let mut tags: Vec<String> = idx.iter().map(|i| format!("piece:{}", piece_name(*i))).collect();
                tags.sort();
                tags.dedup();
                tags.push(format!("ifs:{}", IFSS[c.i].0));
                if VALUES[c.v].is_empty() {
                    tags.push("v:empty".into());
                }
                if VALUES[c.v].contains('\\') {
                    tags.push("v:backslash".into());
                }
                if VALUES[c.v].contains('*') {
                    tags.push("v:glob".into());
                }
                rep.fail(Failure { case: format!("word={w} {desc_cfg}"), tags, expected: want.replace('\0', "␀"), observed: got.replace('\0', "␀"), oracle: "bash".into() });
            }
        }
        if ci % (cfgs.len() / 4).max(1) == 0 {
            rep.sample(json!({"config": desc_cfg, "words": ws.iter().skip(ci % 50).take(3).map(|w| w.0.clone()).collect::<Vec<_>>()}));
        }
    }
    rep.set("words", ws.len() as u64);
    rep.set("configurations", cfgs.len() as u64);
    rep.rule = format!(
        "all words of <= {} pieces over {} piece kinds ({}) x {} values of v x {} positional lists x IFS in {{unset, default, space, newline, empty}} x directory tree {{files incl. dot-file and a name with a space, empty}}; non-trivial = bash's argument list is not a single argument",
        tier.pick(2, 3),
        PIECES.len(),
        PIECES.iter().map(|p| p.1).collect::<Vec<_>>().join(" "),
        VALUES.len(),
        POSITIONALS.len()
    );
    rep.assumptions.push("bash 5.2.15 under LC_ALL=C.utf8 is the oracle; HOME=/vhome in both".into());
    rep.finish()
}
