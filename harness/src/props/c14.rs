//! C14 — printed function definitions re-parse to the same function.
//! For every function body of the grammar (control constructs, redirect lists, here-documents, process
//! substitutions, `!`/`time` pipelines, nested definitions, arithmetic and conditional commands):
//! print is a fixed point of parse-then-print, the ASTs are equal with locations erased, the printed
//! text behaves like the original, survives the export/import path, and bash accepts and agrees.

use super::cfgrammar::{self as g, S};
use crate::engine::inproc::{Inproc, ShellCfg};
use crate::engine::pool::{self, Handler, Outcome, PoolCfg};
use crate::engine::report::{Failure, Report, Tier};
use crate::engine::bash;
use serde_json::{Value, json};

fn erase(v: &mut Value) {
    match v {
        Value::Object(m) => {
            m.remove("loc");
            let is_span = m.len() == 2 && m.contains_key("start") && m.contains_key("end");
            if is_span {
                *v = Value::Null;
                return;
            }
            for (_, x) in m.iter_mut() {
                erase(x);
            }
        }
        Value::Array(a) => {
            for x in a {
                erase(x);
            }
        }
        _ => {}
    }
}

pub fn worker() -> Handler {
    let mut ip = Inproc::new();
    let cfg = ShellCfg::default();
    Box::new(move |case: &[u8]| {
        let v: Value = serde_json::from_slice(case).unwrap();
        let t0 = v["t0"].as_str().unwrap_or("").to_string();
        let dir = ip.fresh_dir();
        let ipr: &Inproc = &ip;
        let out = ipr.rt.block_on(async {
            // 1. accepted?
            let mut sh = ipr.build_shell(&dir, &cfg).await;
            let a0 = match sh.parse_string(t0.clone()) {
                Ok(p) => p,
                Err(e) => return json!({"accepted": false, "err": format!("{e}")}),
            };
            let r = ipr.run_on(&mut sh, &format!("{t0}\ndeclare -f f")).await;
            let p1 = r.out();
            if r.status != 0 || p1.is_empty() {
                return json!({"accepted": false, "err": format!("definition/declare -f failed: status {} stderr {}", r.status, String::from_utf8_lossy(&r.stderr))});
            }
            // 2. P1 parses; P2 == P1; ASTs equal
            let mut sh2 = ipr.build_shell(&dir, &cfg).await;
            let a1 = sh2.parse_string(p1.clone());
            let (p1_parses, ast_equal, ast_diff) = match &a1 {
                Ok(a1) => {
                    let mut j0 = serde_json::to_value(&a0).unwrap_or(Value::Null);
                    let mut j1 = serde_json::to_value(a1).unwrap_or(Value::Null);
                    erase(&mut j0);
                    erase(&mut j1);
                    let eq = j0 == j1;
                    (true, eq, if eq { String::new() } else { format!("{} <> {}", crate::engine::report::truncate(&j0.to_string(), 600), crate::engine::report::truncate(&j1.to_string(), 600)) })
                }
                Err(e) => (false, false, format!("{e}")),
            };
            let r2 = ipr.run_on(&mut sh2, &format!("{p1}\ndeclare -f f")).await;
            let p2 = r2.out();
            // 3. behaviour: call f defined from T0 and from P1
            let call = "\nf a b </dev/null; echo \"rc=$?\"";
            //    (each call in its own empty directory: a body that creates files must not change what a
            //    glob in the same body matches on the second call)
            let (d3, d4) = (dir.join("orig"), dir.join("printed"));
            let _ = std::fs::create_dir_all(&d3);
            let _ = std::fs::create_dir_all(&d4);
            let mut sh3 = ipr.build_shell(&d3, &cfg).await;
            let t_orig = ipr.run_on(&mut sh3, &format!("{}{t0}{call}", g::PRELUDE)).await.out().replace(&*d3.to_string_lossy(), "<DIR>");
            let mut sh4 = ipr.build_shell(&d4, &cfg).await;
            let t_print = ipr.run_on(&mut sh4, &format!("{}{p1}{call}", g::PRELUDE)).await.out().replace(&*d4.to_string_lossy(), "<DIR>");
            // 4. export path: the text brush ships in BASH_FUNC_f%% defines, in a fresh shell, a function
            //    that prints identically
            let mut sh5 = ipr.build_shell(&dir, &cfg).await;
            let rexp = ipr.run_on(&mut sh5, &format!("{t0}\nexport -f f\nvenv 'BASH_FUNC_f%%'")).await.out();
            let exported = rexp.strip_prefix("BASH_FUNC_f%%=").map(|s| s.strip_suffix('\n').unwrap_or(s).to_string());
            let mut import_print = String::new();
            let mut import_err = String::new();
            if let Some(text) = &exported {
                let mut sh6 = ipr.build_shell(&dir, &cfg).await;
                match sh6.define_func_from_str("f", text) {
                    Ok(()) => import_print = ipr.run_on(&mut sh6, "declare -f f").await.out(),
                    Err(e) => import_err = format!("{e}"),
                }
            }
            json!({"accepted": true, "p1": p1, "p2": p2, "p1_parses": p1_parses, "ast_equal": ast_equal, "ast_diff": ast_diff,
                   "trace_orig": t_orig, "trace_print": t_print, "exported": exported, "import_print": import_print, "import_err": import_err})
        });
        out.to_string().into_bytes()
    })
}

/// Feature bodies: one per printer path.
pub const FEATURES: &[(&str, &str)] = &[
    ("simple", "ok 1"),
    ("redir-out", "ok 1 >/dev/null"),
    ("redir-2to1", "ok 1 >/dev/null 2>&1"),
    ("redir-append-in", "ok 1 >>out.txt </dev/null"),
    ("redir-clobber-rw", "ok 1 >|out.txt 3<>rw.txt"),
    ("redir-dup-close", "ok 1 2>&- 3>&1 4<&0"),
    ("redir-both", "ok 1 &>/dev/null"),
    ("redir-both-append", "ok 1 &>>out.txt"),
    ("redir-fdvar", "ok 1 {fd}>out.txt"),
    ("herestring", "vcat <<<\"a $x\""),
    ("heredoc", "vcat <<EOF\nline $x\nEOF"),
    ("heredoc-quoted", "vcat <<'EOF'\nline $x\nEOF"),
    ("heredoc-dash", "vcat <<-EOF\n\tline\n\tEOF"),
    ("heredoc-two", "vcat <<A <<B\na\nA\nb\nB"),
    ("heredoc-then-cmd", "vcat <<EOF; ok 2\nbody\nEOF"),
    ("procsub-in", "vcat <(ok 1)"),
    ("procsub-out", "ok 1 > >(vcat >ps.txt)"),
    ("cmdsub", "echo $(ok 1) `ok 2`"),
    ("pipeline", "ok 1 | vcat"),
    ("pipeline-stderr", "ok 1 |& vcat"),
    ("negated", "! ko 1"),
    ("timed", "time ok 1"),
    ("timed-p", "time -p ok 1"),
    ("negated-timed", "! time ko 1"),
    ("timed-negated", "time ! ko 1"),
    ("timed-p-negated", "time -p ! ko 1"),
    ("timed-negated-pipe", "time ! ko 1 | vcat"),
    ("background", "ok 1 & wait"),
    ("and-or", "ok 1 && ko 2 || ok 3"),
    ("arith-cmd", "(( x = 1 + 2 )); echo $x"),
    ("arith-for", "for ((i=0; i<2; i++)); do ok $i; done"),
    ("arith-for-empty", "for ((;;)); do break; done"),
    ("cond", "[[ -n $x && ( a == a* || ! b < c ) ]]"),
    ("cond-regex", "[[ abc =~ ^a(b)c$ ]]"),
    ("case-multi", "case $1 in a|b) ok 1 ;; c) ok 2 ;& d) ok 3 ;;& *) ok 4 ;; esac"),
    ("case-empty", "case x in esac"),
    ("case-empty-fallthrough", "case a in a) ;& b) ok 1 ;;& c) ;;& d) ;& *) ok 2 ;; esac"),
    ("case-noarm-body", "case x in a) ;; esac"),
    ("for-default", "for i; do ok $i; done"),
    ("for-list", "for i in a \"b c\" $x; do ok 1; done"),
    ("while-redir", "while ko 1; do ok 2; done </dev/null >out.txt"),
    ("until", "until ok 1; do ok 2; done"),
    ("if-elif-else", "if ko 1; then ok 2; elif ok 3; then ok 4; else ok 5; fi"),
    ("group-redir", "{ ok 1; ok 2; } >/dev/null 2>&1"),
    ("subshell-redir", "( ok 1; ok 2 ) 2>/dev/null"),
    ("nested-func", "g() { ok 1; }; g"),
    ("nested-func-kw", "function g { ok 1; }; g"),
    ("nested-func-redir", "g() { ok 1; } >/dev/null; g"),
    ("func-subshell-body", "g() ( ok 1 ); g"),
    ("assign", "x=1 y=\"a b\" ok 1"),
    ("assign-array", "a=(1 \"b c\" [5]=x); a+=(y); echo ${a[@]}"),
    ("assign-only", "x=1; y+=2; z[3]=4"),
    ("quotes", "echo 'a b' \"c $x\" $'d\\n' d\\ e"),
    ("param-exp", "echo ${x:-d} ${x#a*} ${x/a/b} ${#x} ${!x} ${x:1:2} ${x^^}"),
    ("arith-exp", "echo $(( 1 + 2 * x ))"),
    ("brace-tilde-glob", "echo {a,b} ~ * ?x [ab]"),
    ("coproc", "coproc { ok 1; }; wait"),
    ("coproc-named", "coproc cp { ok 1; }; wait"),
    ("select", "select i in a b; do ok 1; done"),
    ("comment", "ok 1 # comment\nok 2"),
    ("continuation", "ok 1 \\\n 2"),
    ("local-declare", "local l=1; declare -a arr=(1 2); export e=3; readonly r=4"),
    ("return", "return 3"),
    ("semicolons-newlines", "ok 1;ok 2\n\nok 3"),
    ("amp-list", "ok 1 & ok 2 & wait"),
];

fn contexts() -> Vec<(&'static str, &'static str, &'static str)> {
    vec![
        ("plain", "", ""),
        ("group", "{ ", "\n}"),
        ("subshell", "( ", "\n)"),
        ("if-body", "if true; then\n", "\nfi"),
        ("while-body", "while c2 9; do\n", "\ndone"),
        ("for-body", "for v in 1; do\n", "\ndone"),
        ("case-arm", "case a in\na) ", "\n;;\nesac"),
        ("nested-func", "h() {\n", "\n}; h"),
        ("seq-after", "ok 8\n", ""),
        ("seq-before", "", "\nok 9"),
        ("group-redirected", "{ ", "\n} 2>/dev/null"),
    ]
}

pub fn run(tier: Tier, _replay: Option<Value>) -> ! {
    let mut rep = Report::new("C14", tier, "exploration");
    let mut bodies: Vec<(String, Vec<String>)> = vec![];
    // grammar programs
    let leaves = vec![S::Leaf(0), S::Leaf(1), S::Ctl("return", Some(3)), S::Ctl("break", None)];
    for p in g::up_to(tier.pick(3, 4), &leaves) {
        let mut r = g::Render::new(false);
        let body = r.stmt(&p);
        let mut full = String::new();
        for f in &r.funcs {
            full.push_str(f);
            full.push('\n');
        }
        full.push_str(&body);
        let mut tags = vec![];
        g::tags(&p, &mut tags);
        bodies.push((full, tags));
    }
    // features in contexts, and feature pairs
    for (fname, ftext) in FEATURES {
        for (cname, open, close) in contexts() {
            bodies.push((format!("{open}{ftext}{close}"), vec![format!("feat:{fname}"), format!("ctx:{cname}")]));
        }
    }
    if tier == Tier::Thorough {
        for (f1, t1) in FEATURES {
            for (f2, t2) in FEATURES {
                bodies.push((format!("{t1}\n{t2}"), vec![format!("feat:{f1}"), format!("feat:{f2}"), "ctx:pair".into()]));
            }
        }
    } else {
        for (i, (f1, t1)) in FEATURES.iter().enumerate() {
            let (f2, t2) = FEATURES[(i * 7 + 3) % FEATURES.len()];
            bodies.push((format!("{t1}\n{t2}"), vec![format!("feat:{f1}"), format!("feat:{f2}"), "ctx:pair".into()]));
        }
    }
    // how the function is DEFINED: redirections attached to the body, a subshell body, the `function` keyword
    const DEFS: &[(&str, &str, &str)] = &[
        ("body-redirect", "f() {\n", "\n} >/dev/null 2>&1"),
        ("body-redirect-fds", "f() {\n", "\n} 3>&1 </dev/null"),
        ("body-redirect-append", "f() {\n", "\n} >>out.txt"),
        ("subshell-body", "f() (\n", "\n)"),
        ("subshell-body-redirect", "f() (\n", "\n) 2>/dev/null"),
        ("function-keyword", "function f {\n", "\n}"),
        ("function-keyword-parens-redirect", "function f() {\n", "\n} >&2"),
    ];
    let mut t0s: Vec<String> = bodies.iter().map(|(b, _)| format!("f() {{\n{b}\n}}")).collect();
    for (fname, ftext) in FEATURES {
        for (dn, open, close) in DEFS {
            bodies.push((ftext.to_string(), vec![format!("feat:{fname}"), format!("def:{dn}")]));
            t0s.push(format!("{open}{ftext}{close}"));
        }
    }
    let cfg = PoolCfg::new("c14").timeout_ms(30_000);
    let cases: Vec<Vec<u8>> = t0s.iter().map(|t| json!({"t0": t}).to_string().into_bytes()).collect();
    let outs = pool::run(&cfg, &cases);
    // bash side: accepts P1, and bash's own print of P1 equals bash's own print of T0
    let mut bash_cases: Vec<String> = vec![];
    let mut bash_idx: Vec<usize> = vec![];
    let mut results: Vec<Option<Value>> = vec![];
    for (i, o) in outs.iter().enumerate() {
        match o {
            Outcome::Ok(b) => {
                let v: Value = serde_json::from_slice(b).unwrap_or(Value::Null);
                if v["accepted"].as_bool() == Some(true) {
                    let p1 = v["p1"].as_str().unwrap_or("").to_string();
                    let exported = v["exported"].as_str().unwrap_or("").to_string();
                    bash_cases.push(format!(
                        "T0={}; P1={}; EX={}\neval \"$T0\" 2>/dev/null || {{ echo T0-REJECTED; exit 0; }}\na=$(declare -f f); unset -f f\nif ! eval \"$P1\" 2>/dev/null; then echo P1-REJECTED; exit 0; fi\nb=$(declare -f f); unset -f f\n[[ \"$a\" == \"$b\" ]] && echo SAME || {{ echo DIFF; echo \"$a\"; echo ----; echo \"$b\"; }}\nif eval \"f $EX\" 2>/dev/null; then c=$(declare -f f); [[ \"$a\" == \"$c\" ]] && echo EXPORT-SAME || echo EXPORT-DIFF; else echo EXPORT-REJECTED; fi",
                        super::c08::ansi_c(&t0s[i]),
                        super::c08::ansi_c(&p1),
                        super::c08::ansi_c(&exported)
                    ));
                    bash_idx.push(i);
                }
                results.push(Some(v));
            }
            other => {
                let mut tags = bodies[i].1.clone();
                tags.push("crash".into());
                rep.fail(Failure { case: t0s[i].clone(), tags, expected: "no crash".into(), observed: other.describe(), oracle: "no-crash".into() });
                results.push(None);
            }
        }
    }
    let bashr = bash::batch_eval("", &bash_cases, &[], 200);
    let mut bash_of: std::collections::HashMap<usize, String> = std::collections::HashMap::new();
    for (k, i) in bash_idx.iter().enumerate() {
        bash_of.insert(*i, bashr[k].as_ref().map(|r| String::from_utf8_lossy(&r.stdout).into_owned()).unwrap_or_else(|| "NO-RECORD".into()));
    }
    for (i, r) in results.iter().enumerate() {
        rep.evaluations += 1;
        let Some(v) = r else { continue };
        if v["accepted"].as_bool() != Some(true) {
            rep.add("bodies_not_accepted_by_brush", 1);
            if rep.extra.get("not_accepted_examples").map(|x| x.as_array().map(|a| a.len()).unwrap_or(0)).unwrap_or(0) < 8 {
                let mut ex = rep.extra.get("not_accepted_examples").cloned().unwrap_or(json!([]));
                ex.as_array_mut().unwrap().push(json!({"body": bodies[i].0, "err": v["err"]}));
                rep.set("not_accepted_examples", ex);
            }
            continue;
        }
        rep.nontrivial.insert(bodies[i].0.clone());
        let p1 = v["p1"].as_str().unwrap_or("");
        rep.observe(p1);
        if i % (results.len() / 6).max(1) == 0 {
            rep.sample(json!({"body": bodies[i].0, "printed": p1}));
        }
        let mut fail = |oracle: &str, expected: String, observed: String, rep: &mut Report| {
            rep.fail(Failure { case: t0s[i].clone(), tags: bodies[i].1.clone(), expected, observed, oracle: oracle.into() });
        };
        if v["p1_parses"].as_bool() != Some(true) {
            fail("printed-text-parses", "declare -f output parses".into(), format!("{}\n-- error: {}", p1, v["ast_diff"].as_str().unwrap_or("")), &mut rep);
            continue;
        }
        if v["p2"].as_str() != Some(p1) {
            fail("print-fixed-point", p1.to_string(), v["p2"].as_str().unwrap_or("").to_string(), &mut rep);
        }
        if v["ast_equal"].as_bool() != Some(true) {
            fail("ast-equal", "same AST (locations erased)".into(), format!("{}\n-- {}", p1, v["ast_diff"].as_str().unwrap_or("")), &mut rep);
        }
        // commands that run concurrently (`&`, `>( )`, coproc) may interleave their output differently in
        // two runs of the very same function: such traces are compared as multisets of lines
        let concurrent = bodies[i].1.iter().any(|t| matches!(t.as_str(), "feat:background" | "feat:amp-list" | "feat:procsub-out" | "feat:procsub-in" | "feat:coproc" | "feat:coproc-named"));
        let norm = |x: &Value| -> String {
            let t = x.as_str().unwrap_or("");
            if concurrent {
                let mut l: Vec<&str> = t.lines().collect();
                l.sort();
                l.join("\n")
            } else {
                t.to_string()
            }
        };
        if norm(&v["trace_orig"]) != norm(&v["trace_print"]) {
            fail("same-behaviour", v["trace_orig"].as_str().unwrap_or("").to_string(), format!("{}\n-- printed as:\n{}", v["trace_print"].as_str().unwrap_or(""), p1), &mut rep);
        }
        if v["exported"].is_null() {
            fail("export-path", "BASH_FUNC_f%% present in the child's environment".into(), "absent".into(), &mut rep);
        } else if v["import_print"].as_str() != Some(p1) {
            fail("export-path", p1.to_string(), format!("{} {}", v["import_print"].as_str().unwrap_or(""), v["import_err"].as_str().unwrap_or("")), &mut rep);
        }
        if let Some(b) = bash_of.get(&i) {
            let first = b.lines().next().unwrap_or("");
            match first {
                "SAME" => {}
                "T0-REJECTED" => rep.add("bodies_rejected_by_bash", 1),
                "P1-REJECTED" => fail("bash-accepts-printed-text", "bash accepts".into(), format!("bash rejects:\n{p1}"), &mut rep),
                "DIFF" => fail("bash-prints-same", "bash's declare -f of T0 == of P1".into(), b.clone(), &mut rep),
                _ => fail("bash-accepts-printed-text", "SAME".into(), b.clone(), &mut rep),
            }
            if b.contains("EXPORT-REJECTED") && first != "T0-REJECTED" {
                fail("bash-imports-exported-text", "bash defines the function from the exported text".into(), v["exported"].as_str().unwrap_or("").to_string(), &mut rep);
            } else if b.contains("EXPORT-DIFF") {
                fail("bash-imports-exported-text", "same function".into(), v["exported"].as_str().unwrap_or("").to_string(), &mut rep);
            }
        }
    }
    rep.set("bodies", bodies.len() as u64);
    rep.set("features", FEATURES.len() as u64);
    rep.rule = format!(
        "all function bodies of the control-flow grammar with <= {} nodes over 4 leaves, {} feature bodies (redirect kinds, here-documents, process substitutions, !/time pipelines, nested definitions, (( )), [[ ]], coproc, arrays, ...) each inside {} enclosing constructs, and feature pairs ({}); non-trivial = accepted by brush",
        tier.pick(3, 4),
        FEATURES.len(),
        contexts().len(),
        if tier == Tier::Thorough { "all ordered pairs" } else { "one pairing per feature" }
    );
    rep.assumptions.push("functions brush does not accept at all are outside the statement (counted); bodies bash rejects are not compared with bash".into());
    rep.finish()
}
