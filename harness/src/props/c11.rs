//! C11 — pipelines and command substitutions move all data, in order, without deadlock.
//! All pipeline shapes of 2 (quick) / 2-3 (thorough) stages with every stage kind in every position x
//! payload sizes on both sides of the 64 KiB pipe capacity x stage delays x early-exit consumers, run by
//! the REAL binary under a wall-clock cap; output length + checksum, PIPESTATUS and `$?` against bash.

use crate::engine::report::{Failure, Report, Tier};
use crate::engine::{bash, procs};
use serde_json::{Value, json};

const PRODUCERS: &[(&str, &str)] = &[
    ("external", "vprod N"),
    ("builtin", "printf '%s' \"$P\""),
    ("function", "pf"),
    ("group", "{ vprod N; }"),
    ("subshell", "( vprod N )"),
    ("delayed-external", "{ vsleep 100; vprod N; }"),
];
const FILTERS: &[(&str, &str)] = &[
    ("external", "vcat"),
    ("function", "ff"),
    ("group", "{ vcat; }"),
    ("subshell", "( vcat )"),
    ("while-read", "while IFS= read -r l; do printf '%s\\n' \"$l\"; done"),
    ("delayed-external", "{ vsleep 100; vcat; }"),
];
const CONSUMERS: &[(&str, &str)] = &[
    ("external", "vcons"),
    ("function", "cf"),
    ("group", "{ vcons; }"),
    ("subshell", "( vcons )"),
    ("while-read-count", "{ n=0; while IFS= read -r l; do n=$((n+1)); done; echo \"lines=$n\"; }"),
    ("early-exit", "vhead 1"),
    ("delayed-external", "vcons 100"),
    ("failing", "{ vcons; vexit 3; }"),
];
/// (tag, bytes, content): content "u" is the multi-byte pattern whose characters straddle every
/// 4096-byte write boundary.
const PAYLOADS: &[(&str, usize, &str)] = &[("0B", 0, ""), ("1line", 8, ""), ("64K-1", 65535, ""), ("64K+1", 65537, ""), ("1M", 1 << 20, ""), ("64K+1:utf8", 65537, " u"), ("1M:utf8", 1 << 20, " u")];

const PRELUDE: &str = "pf() { vprod $N; }\nff() { vcat; }\ncf() { vcons; }\n";

struct Case {
    script: String,
    tags: Vec<String>,
}

fn mk(pipeline: &str, n: (usize, &str), needs_p: bool, wrap: &str) -> String {
    let n = format!("{}{}", n.0, n.1);
    let mut s = format!("N='{n}'\n{PRELUDE}");
    if needs_p {
        s.push_str("P=$(vprod $N; echo x); P=${P%x}\n");
    }
    let pl = pipeline.replace(" N", &format!(" {n}")).replace("N;", &format!("{n};")).replace("N)", &format!("{n})"));
    match wrap {
        "plain" => s.push_str(&format!("{pl}\necho \"st=$? ps=${{PIPESTATUS[*]}}\"\n")),
        "pipefail" => s.push_str(&format!("set -o pipefail\n{pl}\necho \"st=$?\"\n")),
        "cmdsub" => s.push_str(&format!("x=$({pl})\necho \"st=$? len=${{#x}}\"\nprintf '%s' \"$x\" | vcons\n")),
        _ => s.push_str(&format!("{pl}\n")),
    }
    s
}

pub fn run(tier: Tier, replay: Option<Value>) -> ! {
    let mut rep = Report::new("C11", tier, "exploration");
    let mut cases: Vec<Case> = vec![];
    if let Some(r) = &replay {
        rep.replay_mode = true;
        cases.push(Case { script: r["case"].as_str().unwrap_or("").to_string(), tags: vec![] });
    } else {
        for (pn, p) in PRODUCERS {
            for (cn, c) in CONSUMERS {
                for (sn, n, k) in PAYLOADS {
                    if cn.starts_with("while-read") && *n > 70_000 {
                            continue;
                    }
                    // an early-exit consumer is deterministic only when the writer certainly blocks
                    if *cn == "early-exit" && *n < (1 << 20) {
                        continue;
                    }
                    for wrap in ["plain", "pipefail", "cmdsub"] {
                        let utf8_cmdsub = wrap == "cmdsub" && sn.ends_with(":utf8") && (*pn == "external" || *cn == "external");
                        if wrap != "plain" && tier == Tier::Quick && *sn != "1line" && *cn != "early-exit" && !utf8_cmdsub {
                            continue;
                        }
                        let tags = vec![format!("stage0:{pn}"), format!("stageN:{cn}"), format!("payload:{sn}"), format!("wrap:{wrap}"), "stages:2".to_string()];
                        cases.push(Case { script: mk(&format!("{p} | {c}"), (*n, k), *pn == "builtin", wrap), tags });
                    }
                }
            }
        }
        // early exit in the middle and at the end of three stages
        for (fn_, f) in FILTERS.iter().take(4) {
            let tags = vec!["stage0:external".to_string(), format!("stage1:{fn_}"), "stageN:early-exit".to_string(), "payload:1M".to_string(), "wrap:plain".to_string(), "stages:3".to_string()];
            cases.push(Case { script: mk(&format!("vprod N | {f} | vhead 1"), (1 << 20, ""), false, "plain"), tags });
        }
        cases.push(Case { script: mk("vprod N | vhead 1 | vcons", (1 << 20, ""), false, "plain"), tags: vec!["stage0:external".into(), "stage1:early-exit".into(), "stageN:external".into(), "payload:1M".into(), "wrap:plain".into(), "stages:3".into()] });
        // three stages: every filter kind in the middle
        for (pn, p) in PRODUCERS {
            for (fn_, f) in FILTERS {
                for (cn, c) in CONSUMERS {
                    if tier == Tier::Quick && !((*pn == "external" && *cn == "external") || (*fn_ == "external" && *cn == "external") || (*pn == "external" && *fn_ == "external")) {
                        continue;
                    }
                    if *cn == "early-exit" {
                        continue;
                    }
                    for (sn, n, k) in PAYLOADS {
                        if (fn_.starts_with("while-read") || cn.starts_with("while-read")) && *n > 70_000 {
                            continue;
                        }
                        if tier == Tier::Quick && !(*sn == "64K+1" || *sn == "1line" || *sn == "64K+1:utf8") {
                            continue;
                        }
                        let tags = vec![format!("stage0:{pn}"), format!("stage1:{fn_}"), format!("stageN:{cn}"), format!("payload:{sn}"), "wrap:plain".to_string(), "stages:3".to_string()];
                        cases.push(Case { script: mk(&format!("{p} | {f} | {c}"), (*n, k), *pn == "builtin", "plain"), tags });
                    }
                }
            }
        }
        if tier == Tier::Thorough {
            // four stages over the non-delayed kinds, payload just above the pipe capacity
            for (pn, p) in PRODUCERS.iter().take(5) {
                for (f1n, f1) in FILTERS.iter().take(4) {
                    for (f2n, f2) in FILTERS.iter().take(4) {
                        let tags = vec![format!("stage0:{pn}"), format!("stage1:{f1n}"), format!("stage2:{f2n}"), "stageN:external".to_string(), "payload:64K+1".to_string(), "wrap:plain".to_string(), "stages:4".to_string()];
                        cases.push(Case { script: mk(&format!("{p} | {f1} | {f2} | vcons"), (65537, ""), *pn == "builtin", "plain"), tags });
                    }
                }
            }
        }
        // `$(cmd)` returns exactly cmd's output minus trailing newlines, with its status
        for (k, body) in ["printf 'a\\n\\n\\n'", "printf '\\n\\na'", "printf 'a b\\n c\\n'", "vprod 70000", "vprod 70000; vexit 4", "vprod 70000 u", "vprod 1048576 u", "vprod 300000 u | vcat", "vprod 8 u", "printf 'é\\n\\n'", "printf ''", "printf '\\n'", "vexit 5", "echo a; echo b >&2"].iter().enumerate() {
            cases.push(Case { script: format!("x=$({body})\necho \"st=$? len=${{#x}}\"\nprintf '%s' \"$x\" | vcons\n"), tags: vec!["cmdsub-only".into(), format!("body:{k}")] });
        }
        // the substituted command itself runs in the shell (builtin, loop, function, nested substitution)
        // and writes more than a pipe holds
        for n in [65535usize, 65537, 1 << 20] {
            for (k, body) in [
                "printf '%s' \"$P\"",
                "echo \"$P\"",
                "bf",
                "for w in 1 2; do printf '%s' \"$P\"; done",
                "{ printf '%s' \"$P\"; vexit 4; }",
                "printf '%s' \"$(printf '%s' \"$P\")\"",
                "printf '%s' \"$P\" | vcat",
                "vcat <<<\"$P\"",
                "i=0; while [ $i -lt 40 ]; do printf '%s\\n' \"${P:0:2000}\"; i=$((i+1)); done",
                "{ printf '%s' \"$P\" >&2; } 2>&1",
                // nested: the inner substitution's data comes from an external program, the outer writer is a builtin
                "echo \"$(vprod $((${#P})))\"",
                "bg() { echo \"$(vprod ${#P})\"; }; bg",
                "echo \"$(echo \"$(vprod ${#P})\")\"",
            ]
            .iter()
            .enumerate()
            {
                cases.push(Case {
                    script: format!("P=$(vprod {n}; echo x); P=${{P%x}}\nbf() {{ printf '%s' \"$P\"; }}\nx=$({body})\necho \"st=$? len=${{#x}}\"\nprintf '%s' \"$x\" | vcons\n"),
                    tags: vec!["cmdsub-only".into(), "shell-writer".into(), format!("body:{k}"), format!("payload:{n}")],
                });
            }
        }
        // NUL bytes are dropped and trailing newlines trimmed, in that order of meaning: every output of <= 3
        // symbols over {a, newline, NUL}
        for b in crate::engine::enumerate::strings(&["a", "\\n", "\\0"], 3) {
            if !b.contains("\\0") {
                continue;
            }
            cases.push(Case { script: format!("x=$(printf '{b}' 2>/dev/null) 2>/dev/null\necho \"st=$? len=${{#x}}\"\nprintf '%s' \"$x\" | vcons\n"), tags: vec!["cmdsub-only".into(), "nul-bytes".into()] });
        }
        // `read` consumes exactly one line from a shared descriptor
        for (k, s) in [
            "printf 'l1\\nl2\\nl3\\n' >f\n{ read a; vline; vcat; } <f\necho \"a=$a\"\n",
            "printf 'l1\\nl2\\nl3\\n' >f\n{ read a; read b; vcat; } <f\necho \"a=$a b=$b\"\n",
            "printf 'l1\\nl2\\nl3\\n' >f\nexec 3<f\nread -u 3 a\nvline <&3\nread -u 3 c\necho \"a=$a c=$c\"\n",
            "printf 'l1\\nl2\\nl3\\n' | { read a; vcat; }\n",
            "printf 'l1\\nl2\\nl3\\n' | { vline; read b; echo \"b=$b\"; }\n",
            "printf 'l1\\nl2\\n' >f\nwhile read a; do echo \"got $a\"; vline; done <f\n",
        ]
        .iter()
        .enumerate()
        {
            cases.push(Case { script: s.to_string(), tags: vec!["shared-descriptor".into(), format!("variant:{k}")] });
        }
    }
    let brush = procs::brush_path();
    let scripts: Vec<String> = cases.iter().map(|c| c.script.clone()).collect();
    let bashr = bash::run_files(bash::BASH, &scripts, 20_000);
    let cap = |i: usize| -> u64 { (bashr[i].wall_ms * 20).max(2_500) };
    let specs: Vec<procs::ProcSpec> = scripts
        .iter()
        .enumerate()
        .map(|(i, s)| {
            let mut sp = bash::spec_file(&brush, s, cap(i));
            sp.no_confirm = true;
            sp
        })
        .collect();
    let mut br = procs::run_many(&specs, bash::procs_par() * 2);
    // confirm every timeout in a second, isolated pass with a doubled budget
    let tix: Vec<usize> = (0..br.len()).filter(|i| br[*i].timed_out).collect();
    let specs2: Vec<procs::ProcSpec> = tix
        .iter()
        .map(|i| {
            let mut sp = bash::spec_file(&brush, &scripts[*i], cap(*i) * 2);
            sp.no_confirm = true;
            sp
        })
        .collect();
    let r2 = procs::run_many(&specs2, bash::procs_par() * 2);
    for (k, i) in tix.iter().enumerate() {
        br[*i] = r2[k].clone();
    }
    rep.set("timeouts_confirmed_in_second_pass", tix.len() as u64);
    for (i, c) in cases.iter().enumerate() {
        rep.evaluations += 1;
        let o = &bashr[i];
        if o.timed_out {
            rep.add("bash_timeouts_skipped", 1);
            continue;
        }
        let b = &br[i];
        let want = format!("{}exit={}", o.out_str(), o.status);
        // (the observation of a hang carries no wall-clock numbers: it is pinned in the witness table)
        let got = if b.timed_out { "HANG (no exit within the wall-clock cap, confirmed in isolation with a doubled cap)".to_string() } else { format!("{}exit={}", b.out_str(), b.status) };
        let want = if b.timed_out { format!("{want}\n(bash took {} ms; cap {} ms)", o.wall_ms, cap(i) * 2) } else { want };
        rep.observe(&got);
        rep.nontrivial.insert(c.tags.join(","));
        if i % (cases.len() / 5).max(1) == 0 {
            rep.sample(json!({"script": c.script, "bash": want}));
        }
        if got != want {
            let mut tags = c.tags.clone();
            if b.timed_out {
                tags.push("hang".into());
            }
            if !b.timed_out && (b.signal.is_some() || b.status == 101) || b.err_str().contains("panicked") {
                tags.push("crash".into());
            }
            // a compound command or function in a non-final position
            let compound = |t: &String| t.ends_with(":function") || t.ends_with(":group") || t.ends_with(":subshell") || t.ends_with(":while-read") || t.ends_with(":delayed-external");
            if c.tags.iter().any(|t| (t.starts_with("stage0:") || t.starts_with("stage1:") || t.starts_with("stage2:")) && compound(t)) {
                tags.push("nonfinal-compound-stage".into());
            }
            rep.fail(Failure { case: c.script.clone(), tags, expected: want, observed: got, oracle: "bash".into() });
        }
    }
    rep.set("cases", cases.len() as u64);
    rep.rule = format!(
        "pipelines of 2{} stages: producer kinds {:?} x filter kinds {:?} x consumer kinds {:?} x payloads {:?} x (plain | pipefail | inside $( )); command-substitution trailing-newline/status probes; shared-descriptor `read` probes; run by the real binary with cap max(2.5 s, 20 x bash's time), every timeout confirmed in isolation with a doubled cap; distinct = tag set",
        if tier == Tier::Thorough { ", 3 and 4" } else { " and 3 (reduced)" },
        PRODUCERS.iter().map(|x| x.0).collect::<Vec<_>>(),
        FILTERS.iter().map(|x| x.0).collect::<Vec<_>>(),
        CONSUMERS.iter().map(|x| x.0).collect::<Vec<_>>(),
        PAYLOADS.iter().map(|x| x.0).collect::<Vec<_>>()
    );
    rep.assumptions.push("stage-start orders are enumerated through two-valued stage delays (0 / 100 ms) in every position; finer orders inside brush need the verif-hooks pause points (see DESIGN.md)".into());
    rep.finish()
}
