//! C16 — the EXIT trap runs exactly once on every way out, and traps preserve `$?`.
//! termination path x nesting context x trap life-cycle x handler kind x front-end, all combinations;
//! invariants read from stdout (count, position, `$?`, process status) plus bash's output.

use super::common;
use crate::engine::report::{Failure, Report, Tier};
use crate::engine::{bash, procs};
use serde_json::{Value, json};

/// (name, setup lines before the context, terminating command placed inside the context, terminates?)
const PATHS: &[(&str, &str, &str, bool)] = &[
    ("end", "", "echo body", false),
    ("exit-n", "", "exit 3", true),
    ("exit-in-func", "fe() { exit 4; }", "fe", true),
    ("exit-in-loop", "", "for i in 1 2; do exit 5; done", true),
    ("exit-in-eval", "", "eval 'exit 6'", true),
    ("exit-in-source", "", ". ./inc.sh", true),
    ("exit-noarg-after-false", "", "{ false; exit; }", true),
    ("errexit", "set -e", "vfalse", true),
    ("errexit-in-func", "set -e; fe() { vfalse; echo not-reached; }", "fe", true),
    ("nounset", "set -u", "echo $undefined_v", true),
    ("expansion-error", "", "echo ${undefined_v:?msg}", true),
    ("eval-syntax-error", "", "eval 'if'", false),
    ("return-top", "", "return 2", false),
    ("exit-in-cmdsub-then-end", "", "x=$(exit 7)", false),
];

const CONTEXTS: &[(&str, &str, &str)] = &[
    ("plain", "", ""),
    ("group", "{ ", "; }"),
    ("if", "if true; then ", "; fi"),
    ("while", "while true; do ", "; break; done"),
    ("case", "case a in a) ", ";; esac"),
    ("func", "cf() { ", "; }; cf"),
    ("and", "true && ", ""),
    ("or", "false || ", ""),
    ("subshell", "( ", " )"),
    ("pipeline-last", "true | ", ""),
    ("func-in-loop", "cf() { ", "; }; for j in 1; do cf; done"),
];

const LIFECYCLES: &[(&str, &str)] = &[
    ("set-once", "trap 'HANDLER' EXIT"),
    ("replaced", "trap 'echo OLD' EXIT; trap 'HANDLER' EXIT"),
    ("removed", "trap 'HANDLER' EXIT; trap - EXIT"),
    ("ignored", "trap 'HANDLER' EXIT; trap '' EXIT"),
    // the pseudo-signal spelled other ways (lower case, mixed case, number 0, one-argument reset)
    ("set-once-lower", "trap 'HANDLER' exit"),
    ("set-once-mixed", "trap 'HANDLER' Exit"),
    ("set-once-number", "trap 'HANDLER' 0"),
    ("replaced-lower-then-upper", "trap 'echo OLD' exit; trap 'HANDLER' EXIT"),
    ("replaced-upper-then-lower", "trap 'echo OLD' EXIT; trap 'HANDLER' exit"),
    ("replaced-upper-then-number", "trap 'echo OLD' EXIT; trap 'HANDLER' 0"),
    ("removed-lower", "trap 'HANDLER' EXIT; trap - exit"),
    ("removed-number", "trap 'HANDLER' exit; trap - 0"),
    ("removed-one-argument", "trap 'HANDLER' EXIT; trap EXIT"),
    ("removed-one-argument-number", "trap 'HANDLER' EXIT; trap 0"),
    ("ignored-lower", "trap 'HANDLER' EXIT; trap '' exit"),
    ("set-in-func", "st() { trap 'HANDLER' EXIT; }; st"),
    ("set-in-subshell", "( trap 'HANDLER' EXIT; echo in-sub )"),
];

const HANDLERS: &[(&str, &str, &str)] = &[
    ("plain", "", "echo \"T:$?\""),
    ("fails", "", "echo \"T:$?\"; false"),
    ("calls-func", "hf() { echo \"T:$?\"; return 5; }", "hf"),
    ("sets-trap", "", "echo \"T:$?\"; trap \"echo SECOND\" EXIT"),
    ("calls-exit", "", "echo \"T:$?\"; exit 9"),
    ("err-inside", "", "echo \"T:$?\"; trap \"echo E\" ERR; false; echo \"H:$?\""),
];

struct Case {
    script: String,
    tags: Vec<String>,
    expect_markers: Option<usize>,
    handler_exits: bool,
}

fn build(tier: Tier) -> Vec<Case> {
    let mut out = vec![];
    for (pn, psetup, pcmd, _terminates) in PATHS {
        for (cn, copen, cclose) in CONTEXTS {
            for (ln, ltext) in LIFECYCLES {
                for (hn, hsetup, hbody) in HANDLERS {
                    if tier == Tier::Quick && *hn != "plain" && !(*cn == "plain" || *cn == "func") {
                        continue;
                    }
                    if tier == Tier::Quick && *ln != "set-once" && !(*cn == "plain" || *cn == "func" || *cn == "subshell") {
                        continue;
                    }
                    let trap = ltext.replace("HANDLER", hbody);
                    let script = format!("{hsetup}\n{psetup}\n{trap}\necho start\n{copen}{pcmd}{cclose}\necho \"end=$?\"\n");
                    let markers = match *ln {
                        l if l.starts_with("removed") || l.starts_with("ignored") => Some(0),
                        _ => Some(1),
                    };
                    out.push(Case {
                        script,
                        tags: vec![format!("path:{pn}"), format!("ctx:{cn}"), format!("life:{ln}"), format!("handler:{hn}")],
                        expect_markers: markers,
                        handler_exits: *hn == "calls-exit" && markers == Some(1),
                    });
                }
            }
        }
    }
    // every non-empty subset of {DEBUG, ERR, EXIT} with every assignment of handler bodies, over programs
    // with failing commands at top level, in functions, subshells, loops and ERR-exempt positions
    const BODIES: &[(&str, &str)] = &[("ok", ""), ("fails", "; false"), ("func-fails", "; hfail"), ("subshell-fails", "; (exit 2)")];
    const PROGS: &[(&str, &str)] = &[
        ("top", "vfalse\necho \"after=$?\""),
        ("in-func", "f() { vfalse; echo \"in=$?\"; return 2; }\nf\necho \"after=$?\""),
        ("subshell-then-exit", "(exit 3)\necho \"after=$?\"\nexit 4"),
        ("exempt-positions", "vfalse | vtrue; echo \"after=$?\"\n! vfalse; echo \"after=$?\"\nif vfalse; then :; fi; echo \"after=$?\"\nvfalse || echo \"after=$?\""),
        ("in-loop", "for i in 1 2; do vfalse; done\necho \"after=$?\""),
        ("exit-in-condition", "if vtrue; then exit 5; fi\necho not-reached"),
        ("exit-in-function-in-andor", "fx() { exit 6; }\nfx && echo not-reached\necho not-reached-either"),
    ];
    const OPTS: &[(&str, &str)] = &[("none", ""), ("errtrace", "set -E\n"), ("errexit", "set -e\n"), ("errexit+errtrace", "set -eE\n"), ("pipefail", "set -o pipefail\n"), ("pipefail+errtrace", "set -E -o pipefail\n")];
    let kinds = ["DEBUG", "ERR", "EXIT"];
    // assignment: per kind, 0 = not set, 1.. = body index + 1
    for code in 1..2 * 5 * 5usize {
        // DEBUG is either absent or a silent, succeeding handler (how often DEBUG fires, and what a failing
        // DEBUG handler does, is outside this property and differs between the shells)
        let sel = [code % 2, (code / 2) % 5, code / 10];
        let mut traps = String::new();
        let mut tset = vec![];
        let mut tbodies = vec![];
        for (k, kind) in kinds.iter().enumerate() {
            if sel[k] == 0 {
                continue;
            }
            let (bn, bs) = BODIES[sel[k] - 1];
            let marker = match *kind {
                "DEBUG" => "dbg=1".to_string(), // silent: how often DEBUG fires is not part of this property
                "ERR" => "echo \"E:$?\"".to_string(),
                _ => "echo \"T:$?\"".to_string(),
            };
            traps.push_str(&format!("trap '{marker}{bs}' {kind}\n"));
            tset.push(*kind);
            tbodies.push(format!("has:{kind}"));
            if *kind != "DEBUG" {
                tbodies.push(format!("body:{kind}={bn}"));
            }
        }
        for (pn, prog) in PROGS {
            for (on, opt) in OPTS {
                if tier == Tier::Quick && *on == "errexit+errtrace" && tset.len() < 3 {
                    continue;
                }
                let mut tags = vec![format!("trapset:{}", tset.join("+")), format!("prog:{pn}"), format!("opts:{on}")];
                tags.extend(tbodies.iter().cloned());
                out.push(Case { script: format!("hfail() {{ return 3; }}\n{opt}{traps}{prog}\n"), tags, expect_markers: Some(if sel[2] != 0 { 1 } else { 0 }), handler_exits: false });
            }
        }
    }
    // ERR/EXIT handlers leave $? of the interrupted flow unchanged; handlers do not re-enter themselves
    for (n, s) in [
        ("err-preserves-status", "trap 'echo \"E:$?\"; true' ERR\nvexit 3\necho \"after=$?\"\nvfalse\necho \"after=$?\"\n"),
        ("err-handler-failing-inside", "trap 'echo \"E:$?\"; false' ERR\nvfalse\necho \"after=$?\"\n"),
        ("exit-handler-failing-cmd", "trap 'vfalse; echo \"T:$?\"' EXIT\nexit 4\n"),
        ("exit-handler-with-errexit", "set -e\ntrap 'echo \"T:$?\"; vfalse; echo not-reached' EXIT\nexit 4\n"),
        ("exit-in-exit-handler-twice", "trap 'echo \"T:$?\"; exit 8' EXIT\nexit 2\n"),
        ("err-in-function-errtrace", "set -E\ntrap 'echo \"E:$?\"' ERR\nf() { vexit 6; echo \"in=$?\"; }\nf\necho \"after=$?\"\n"),
        ("debug-return-not-confused", "trap 'echo \"T:$?\"' EXIT\nf() { return 6; }\nf\n"),
        ("err-lower", "trap 'echo \"E:$?\"' err\nvexit 3\necho \"after=$?\"\n"),
        ("err-replaced-upper-then-lower", "trap 'echo OLD' ERR\ntrap 'echo \"E:$?\"' err\nvexit 3\necho \"after=$?\"\n"),
        ("err-removed-lower", "trap 'echo \"E:$?\"' ERR\ntrap - err\nvexit 3\necho \"after=$?\"\n"),
        ("err-lower-and-exit-lower", "trap 'echo \"E:$?\"' err\ntrap 'echo \"T:$?\"' exit\nvexit 3\necho \"after=$?\"\n"),
        ("exit-trap-exec", "trap 'echo \"T:$?\"' EXIT\necho before\nexec vemit replaced\n"),
    ] {
        out.push(Case { script: s.to_string(), tags: vec![format!("special:{n}")], expect_markers: if n == "exit-trap-exec" { Some(0) } else { None }, handler_exits: n == "exit-in-exit-handler-twice" });
    }
    out
}

pub fn run(tier: Tier, replay: Option<Value>) -> ! {
    let mut rep = Report::new("C16", tier, "exploration");
    let cases = if let Some(r) = &replay {
        rep.replay_mode = true;
        vec![Case { script: r["case"].as_str().unwrap_or("").splitn(2, '\n').nth(1).unwrap_or("").to_string(), tags: vec![], expect_markers: None, handler_exits: false }]
    } else {
        build(tier)
    };
    let inc = ("inc.sh".to_string(), "echo in-source\nexit 7\n".to_string());
    // front-ends: file and -c in-process (the public entry points the binary calls), stdin via the real binary
    for fe in ["file", "dash-c", "stdin"] {
        let is_exec = |c: &Case| c.script.contains("exec vemit");
        let (brush_out, idx): (Vec<(String, i64, Option<String>)>, Vec<usize>) = if fe == "stdin" {
            // real binary; at the quick tier only the plain handler
            let idx: Vec<usize> = (0..cases.len()).filter(|i| tier == Tier::Thorough || cases[*i].tags.iter().any(|t| t == "handler:plain" || t.starts_with("special:") || t.starts_with("trapset:"))).collect();
            let specs: Vec<procs::ProcSpec> = idx
                .iter()
                .map(|i| {
                    let mut sp = bash::spec_stdin(&procs::brush_path(), &cases[*i].script, 10_000);
                    sp.files.push((inc.0.clone(), inc.1.clone().into_bytes()));
                    sp
                })
                .collect();
            let r = procs::run_many(&specs, bash::procs_par());
            (r.iter().map(|o| (o.out_str(), o.status as i64, if o.timed_out { Some("TIMEOUT".to_string()) } else if o.signal.is_some() || o.status == 101 { Some(format!("crash status {}", o.status)) } else { None })).collect(), idx)
        } else {
            let idx: Vec<usize> = (0..cases.len()).collect();
            // `exec` replaces the process: run those through the real binary
            let mut res: Vec<(String, i64, Option<String>)> = vec![];
            let j: Vec<Value> = idx.iter().map(|i| json!({"s": if is_exec(&cases[*i]) { "true" } else { cases[*i].script.as_str() }, "mode": fe, "files": {inc.0.clone(): inc.1}})).collect();
            let obs = common::run_scripts(&j, 20_000);
            for (k, i) in idx.iter().enumerate() {
                if is_exec(&cases[*i]) {
                    let sp = if fe == "file" { bash::spec_file(&procs::brush_path(), &cases[*i].script, 10_000) } else { bash::spec_dash_c(&procs::brush_path(), &cases[*i].script, 10_000) };
                    let o = procs::run_one(&sp, &procs::scratch_root().join("c16exec"));
                    res.push((o.out_str(), o.status as i64, None));
                } else {
                    res.push((obs[k].out.clone(), obs[k].status, obs[k].crash.clone()));
                }
            }
            (res, idx)
        };
        let bspecs: Vec<procs::ProcSpec> = idx
            .iter()
            .map(|i| {
                let mut sp = match fe {
                    "file" => bash::spec_file(bash::BASH, &cases[*i].script, 10_000),
                    "dash-c" => bash::spec_dash_c(bash::BASH, &cases[*i].script, 10_000),
                    _ => bash::spec_stdin(bash::BASH, &cases[*i].script, 10_000),
                };
                sp.files.push((inc.0.clone(), inc.1.clone().into_bytes()));
                sp
            })
            .collect();
        let bashr = procs::run_many(&bspecs, bash::procs_par());
        for (k, i) in idx.iter().enumerate() {
            let c = &cases[*i];
            rep.evaluations += 1;
            let (out, status, crash) = &brush_out[k];
            let desc = format!("front-end={fe}\n{}", c.script);
            let mut tags = c.tags.clone();
            tags.push(format!("frontend:{fe}"));
            rep.nontrivial.insert(format!("{fe}|{}", c.tags.join(",")));
            if let Some(cr) = crash {
                tags.push("crash".into());
                rep.fail(Failure { case: desc, tags, expected: "terminates".into(), observed: cr.clone(), oracle: "no-crash".into() });
                continue;
            }
            rep.observe(out);
            if k % (idx.len() / 3).max(1) == 0 {
                rep.sample(json!({"frontend": fe, "script": c.script, "stdout": out, "status": status}));
            }
            // --- invariants, independent of bash
            let lines: Vec<&str> = out.lines().collect();
            let marker_idx: Vec<usize> = lines.iter().enumerate().filter(|(_, l)| l.starts_with("T:")).map(|(k, _)| k).collect();
            let in_subshell_trap = c.tags.iter().any(|t| t == "life:set-in-subshell");
            if let Some(n) = c.expect_markers {
                if marker_idx.len() != n {
                    let mut t = tags.clone();
                    t.push(if marker_idx.len() > n { "marker-too-many".into() } else { "marker-missing".into() });
                    rep.fail(Failure { case: desc.clone(), tags: t, expected: format!("EXIT marker exactly {n} time(s)"), observed: format!("{} time(s): {:?}", marker_idx.len(), out), oracle: "exactly-once".into() });
                }
            } else if marker_idx.len() > 1 {
                let mut t = tags.clone();
                t.push("marker-too-many".into());
                rep.fail(Failure { case: desc.clone(), tags: t, expected: "EXIT marker at most once".into(), observed: format!("{:?}", out), oracle: "exactly-once".into() });
            }
            if let (Some(&m), false) = (marker_idx.first(), in_subshell_trap) {
                // after all other output: nothing but the handler's own lines may follow
                let later: Vec<&&str> = lines[m + 1..].iter().filter(|l| !(l.starts_with("H:") || **l == "E" || l.starts_with("E:") || **l == "SECOND")).collect();
                if !later.is_empty() {
                    let mut t = tags.clone();
                    t.push("marker-not-last".into());
                    rep.fail(Failure { case: desc.clone(), tags: t, expected: "the trap's marker is the last output".into(), observed: format!("{:?}", out), oracle: "after-all-output".into() });
                }
                // $? seen by the handler is the terminating status = the process status (unless the handler exits)
                let seen: i64 = lines[m][2..].parse().unwrap_or(-1);
                // (only meaningful when the marker is the handler's first command)
                if c.tags.iter().any(|t| t == "special:exit-handler-failing-cmd") {
                    continue;
                }
                let want_status = if c.handler_exits { if c.tags.iter().any(|t| t == "special:exit-in-exit-handler-twice") { 8 } else { 9 } } else { seen };
                if *status != want_status {
                    let mut t = tags.clone();
                    t.push("status-vs-marker".into());
                    rep.fail(Failure { case: desc.clone(), tags: t, expected: format!("process status {want_status} (handler saw $?={seen})"), observed: format!("process status {status}; stdout {:?}", out), oracle: "status-preserved".into() });
                }
            }
            // --- bash
            let b = &bashr[k];
            if !b.timed_out {
                let want = format!("{}status={}", b.out_str(), b.status);
                let got = format!("{out}status={status}");
                if got != want {
                    let mut t = tags.clone();
                    if b.status == 127 && *status == 1 && got.replace("status=1", "status=127") == want {
                        t.push("status-1-vs-127".into());
                    }
                    rep.fail(Failure { case: desc, tags: t, expected: want, observed: got, oracle: "bash".into() });
                }
            }
        }
    }
    rep.rule = format!(
        "all combinations of {} termination paths x {} nesting contexts x {} trap life-cycles x {} handler kinds (quick: non-plain handlers/life-cycles only in the plain, function and subshell contexts) + every non-empty subset of {{DEBUG, ERR, EXIT}} x every assignment of 4 ERR/EXIT handler bodies (ok, failing command, failing function, failing subshell; DEBUG silent) x 7 programs x 6 option sets (each handler must not re-enter itself, EXIT exactly once) + {} special scripts, on the file and -c front-ends (in-process public entry points) and stdin (real binary); distinct = (front-end, path, context, life-cycle, handler)",
        PATHS.len(),
        CONTEXTS.len(),
        LIFECYCLES.len(),
        HANDLERS.len(),
        8
    );
    rep.assumptions.push("`exec` cases run through the real binary on every front-end".into());
    rep.finish()
}
