//! C20 — command history is saved once, in order, and reloads as saved.
//! Explicit-state model checking (stateright BFS) where every transition executes the REAL code:
//! `Shell::add_to_history`, `Shell::save_history`, `Shell::new` (⇒ `load_history` ⇒ `History::import`)
//! and the `history` builtin (-d, -c, -w, -a), against a small reference model of the property.

use crate::engine::inproc::{self, Sh};
use crate::engine::report::{Failure, Report, Tier};
use serde_json::{Value, json};
use stateright::{Checker, Model, Property};
use std::hash::{Hash, Hasher};
use std::path::PathBuf;
use std::sync::atomic::{AtomicU64, Ordering};
use std::sync::{Arc, Mutex};

#[derive(Clone, Copy, Debug, PartialEq, Eq, Hash)]
pub enum Op {
    Add(u8),
    Save,
    NewSession,
    DeleteFirst,
    DeleteLast,
    DeleteSecondLast,
    Clear,
    ToggleTs,
    HistW,
    HistA,
}

const CMDS: &[&str] = &["a", "b", " p ", "#c"];

fn ts_of(cmd: &str) -> i64 {
    match cmd.trim() {
        "a" => 1_000_001,
        "b" => 1_000_002,
        "p" => 1_000_004,
        _ => 1_000_003,
    }
}

pub fn all_ops() -> Vec<Op> {
    let mut v: Vec<Op> = (0..CMDS.len() as u8).map(Op::Add).collect();
    v.extend([Op::Save, Op::NewSession, Op::DeleteFirst, Op::DeleteLast, Op::DeleteSecondLast, Op::Clear, Op::ToggleTs, Op::HistW, Op::HistA]);
    v
}

pub fn op_name(o: Op) -> String {
    match o {
        Op::Add(i) => format!("add({:?})", CMDS[i as usize]),
        Op::Save => "save".into(),
        Op::NewSession => "new-session".into(),
        Op::DeleteFirst => "history -d 1".into(),
        Op::DeleteLast => "history -d -1".into(),
        Op::DeleteSecondLast => "history -d -2".into(),
        Op::Clear => "history -c".into(),
        Op::ToggleTs => "toggle HISTTIMEFORMAT".into(),
        Op::HistW => "history -w".into(),
        Op::HistA => "history -a".into(),
    }
}

/// Reference model = the property's own semantics: an ordered session list with a saved flag per item,
/// and the expected file as a list of lines.
#[derive(Clone, Debug, PartialEq, Eq, Hash, Default)]
pub struct RefModel {
    /// (command, timestamp, saved?)
    pub items: Vec<(String, Option<i64>, bool)>,
    pub file: Vec<String>,
    pub tsflag: bool,
}

impl RefModel {
    fn write_item(file: &mut Vec<String>, it: &(String, Option<i64>, bool), ts: bool) {
        if ts {
            if let Some(t) = it.1 {
                file.push(format!("#{t}"));
            }
        }
        file.push(it.0.clone());
    }
    pub fn apply(&mut self, op: Op) {
        match op {
            Op::Add(i) => {
                let c = CMDS[i as usize].trim();
                if !c.is_empty() {
                    self.items.push((c.to_string(), Some(ts_of(c)), false));
                }
            }
            Op::Save | Op::HistA => {
                let ts = self.tsflag;
                for it in self.items.iter_mut() {
                    if !it.2 {
                        Self::write_item(&mut self.file, it, ts);
                        it.2 = true;
                    }
                }
            }
            Op::HistW => {
                // the file is replaced by the session. `history -w` is not one of the operations the
                // property quantifies over, and bash itself keeps the session's lines "unsaved" after it
                // (the upstream suite pins exactly that, history.yaml "history -w"): the saved flags stay
                // as they are, so a later save appends those lines again.
                self.file.clear();
                let ts = self.tsflag;
                for it in self.items.iter() {
                    Self::write_item(&mut self.file, it, ts);
                }
            }
            Op::NewSession => {
                // a new session starts from what the file holds
                self.items = Self::import(&self.file);
            }
            Op::DeleteFirst => {
                if !self.items.is_empty() {
                    self.items.remove(0);
                }
            }
            Op::DeleteLast => {
                self.items.pop();
            }
            Op::DeleteSecondLast => {
                if self.items.len() >= 2 {
                    let k = self.items.len() - 2;
                    self.items.remove(k);
                }
            }
            Op::Clear => self.items.clear(),
            Op::ToggleTs => self.tsflag = !self.tsflag,
        }
    }
    /// File format: `#<epoch>` lines are timestamps for the next command, other `#` lines are comments.
    pub fn import(lines: &[String]) -> Vec<(String, Option<i64>, bool)> {
        let mut out = vec![];
        let mut ts = None;
        for l in lines {
            if let Some(c) = l.strip_prefix('#') {
                ts = c.trim().parse::<i64>().ok();
                continue;
            }
            out.push((l.clone(), ts.take(), true));
        }
        out
    }
}

#[derive(Clone)]
pub struct St {
    sh: Arc<Mutex<Sh>>,
    file: Vec<u8>,
    model: RefModel,
    depth: u8,
    canon: String,
    trace: Vec<Op>,
    /// the commands of the history file the search started from (recorded before the trace)
    seed: Arc<Vec<String>>,
}

impl PartialEq for St {
    fn eq(&self, o: &Self) -> bool {
        self.canon == o.canon && self.depth == o.depth
    }
}
impl Eq for St {}
impl Hash for St {
    fn hash<H: Hasher>(&self, h: &mut H) {
        self.canon.hash(h);
        self.depth.hash(h);
    }
}
impl std::fmt::Debug for St {
    fn fmt(&self, f: &mut std::fmt::Formatter<'_>) -> std::fmt::Result {
        write!(f, "St({:?} d={})", self.canon, self.depth)
    }
}

pub struct Shared {
    pub failures: Mutex<Vec<Failure>>,
    pub transitions: AtomicU64,
    pub validated: AtomicU64,
    pub samples: Mutex<Vec<Value>>,
    /// hashes of the distinct (file contents, session) observations
    pub observed: Mutex<std::collections::BTreeSet<u64>>,
}

pub struct HistModel {
    rt: Arc<tokio::runtime::Runtime>,
    dir: PathBuf,
    max_depth: u8,
    shared: Arc<Shared>,
    ops: Vec<Op>,
}

fn impl_items(sh: &Sh) -> Vec<(String, Option<i64>, bool)> {
    sh.history().map(|h| h.iter().map(|i| (i.command_line.clone(), i.timestamp.map(|t| t.timestamp()), !i.dirty)).collect()).unwrap_or_default()
}

fn canon_of(sh: &Sh, file: &[u8], tsflag: bool) -> String {
    format!("{:?}|{}|{}", impl_items(sh), String::from_utf8_lossy(file), tsflag)
}

impl HistModel {
    fn hist_path(&self) -> PathBuf {
        // one file per checker thread
        let tid = format!("{:?}", std::thread::current().id());
        let tid: String = tid.chars().filter(|c| c.is_ascii_digit()).collect();
        self.dir.join(format!("hist.{tid}"))
    }

    fn new_shell(&self, path: &std::path::Path, tsflag: bool) -> Sh {
        self.rt.block_on(async {
            let mut b = brush_core::Shell::builder()
                .profile(brush_core::ProfileLoadBehavior::Skip)
                .rc(brush_core::RcLoadBehavior::Skip)
                .do_not_inherit_env(true)
                .interactive(true)
                .working_dir(self.dir.clone())
                .builtins(brush_builtins::default_builtins(brush_builtins::BuiltinSet::BashMode))
                .var("HISTFILE", brush_core::ShellVariable::new(path.to_string_lossy().into_owned()));
            if tsflag {
                b = b.var("HISTTIMEFORMAT", brush_core::ShellVariable::new("%s ".to_string()));
            }
            b.build().await.expect("build interactive shell")
        })
    }

    fn run_builtin(&self, sh: &mut Sh, cmd: &str) {
        self.rt.block_on(async {
            let devnull = || std::fs::OpenOptions::new().read(true).write(true).open("/dev/null").unwrap();
            let mut params = sh.default_exec_params();
            params.set_fd(0, devnull().into());
            params.set_fd(1, devnull().into());
            params.set_fd(2, devnull().into());
            let _ = sh.run_string(cmd.to_string(), &brush_core::SourceInfo::default(), &params).await;
        });
    }

    /// Executes one operation on the real code. Returns the new shell and file bytes.
    fn step_impl(&self, s: &St, op: Op) -> (Sh, Vec<u8>) {
        let path = self.hist_path();
        if s.file.is_empty() {
            let _ = std::fs::remove_file(&path);
        } else {
            std::fs::write(&path, &s.file).expect("write hist file");
        }
        let mut sh: Sh = s.sh.lock().unwrap().clone();
        inproc::set_var(&mut sh, "HISTFILE", &path.to_string_lossy());
        match op {
            Op::Add(i) => {
                let c = CMDS[i as usize];
                let _ = sh.add_to_history(c);
                // make the wall-clock timestamp deterministic (public API: update_by_id)
                if let Some(h) = sh.history_mut() {
                    if let Some(last) = h.iter().last().cloned() {
                        let mut it = last.clone();
                        it.timestamp = brush_core::history::ItemTimestamp::from_timestamp(ts_of(&it.command_line), 0);
                        let _ = h.update_by_id(last.id, it);
                    }
                }
            }
            Op::Save => {
                let _ = sh.save_history();
            }
            Op::NewSession => {
                drop(sh);
                sh = self.new_shell(&path, s.model.tsflag);
            }
            Op::DeleteFirst => self.run_builtin(&mut sh, "history -d 1"),
            Op::DeleteLast => self.run_builtin(&mut sh, "history -d -1"),
            Op::DeleteSecondLast => self.run_builtin(&mut sh, "history -d -2"),
            Op::Clear => self.run_builtin(&mut sh, "history -c"),
            Op::ToggleTs => {
                if s.model.tsflag {
                    let _ = sh.env_mut().unset("HISTTIMEFORMAT");
                } else {
                    inproc::set_var(&mut sh, "HISTTIMEFORMAT", "%s ");
                }
            }
            Op::HistW => self.run_builtin(&mut sh, "history -w"),
            Op::HistA => self.run_builtin(&mut sh, "history -a"),
        }
        let file = std::fs::read(&path).unwrap_or_default();
        (sh, file)
    }

    fn record(&self, trace: &[Op], oracle: &str, expected: String, observed: String) {
        let mut f = self.shared.failures.lock().unwrap();
        if f.len() < 5000 {
            let mut tags: Vec<String> = vec![];
            for o in trace {
                let t = match o {
                    Op::Add(i) if CMDS[*i as usize].starts_with('#') => "op:add-hash",
                    Op::Add(_) => "op:add",
                    Op::Save => "op:save",
                    Op::NewSession => "op:new-session",
                    Op::DeleteFirst | Op::DeleteLast | Op::DeleteSecondLast => "op:delete",
                    Op::Clear => "op:clear",
                    Op::ToggleTs => "op:toggle-ts",
                    Op::HistW => "op:history-w",
                    Op::HistA => "op:history-a",
                };
                if !tags.iter().any(|x| x == t) {
                    tags.push(t.to_string());
                }
            }
            tags.sort();
            f.push(Failure {
                case: trace.iter().map(|o| op_name(*o)).collect::<Vec<_>>().join("; "),
                tags,
                expected,
                observed,
                oracle: oracle.to_string(),
            });
        }
    }
}

fn file_lines(file: &[u8]) -> Vec<String> {
    let s = String::from_utf8_lossy(file);
    s.lines().map(|l| l.to_string()).collect()
}

impl Model for HistModel {
    type State = St;
    type Action = Op;

    fn init_states(&self) -> Vec<St> {
        // The search starts from an empty history AND from sessions loaded from files an earlier session (or
        // another shell) may have left: timestamped and bare entries mixed in both orders, and all
        // timestamped. States that take many operations to build are depth 0 here.
        const SEED_FILES: &[&[&str]] = &[&[], &["#1000001", "a", "b"], &["a", "#1000002", "b", "p"], &["#1000001", "a", "#1000002", "b"]];
        let path = self.hist_path();
        let mut out = vec![];
        for seed in SEED_FILES {
            let lines: Vec<String> = seed.iter().map(|l| l.to_string()).collect();
            let bytes: Vec<u8> = if lines.is_empty() { vec![] } else { format!("{}\n", lines.join("\n")).into_bytes() };
            if bytes.is_empty() {
                let _ = std::fs::remove_file(&path);
            } else {
                std::fs::write(&path, &bytes).expect("write seed history file");
            }
            let sh = self.new_shell(&path, false);
            let model = RefModel { items: RefModel::import(&lines), file: lines.clone(), tsflag: false };
            // the loaded session must already agree with the model
            let got: Vec<(String, Option<i64>)> = impl_items(&sh).iter().map(|i| (i.0.clone(), i.1)).collect();
            let want: Vec<(String, Option<i64>)> = model.items.iter().map(|i| (i.0.clone(), i.1)).collect();
            if got != want {
                self.record(&[], "session-vs-model", format!("loaded from {:?}: {:?}", lines, want), format!("{:?}", got));
            }
            let canon = canon_of(&sh, &bytes, false);
            let seed_cmds: Vec<String> = lines.iter().filter(|l| !l.starts_with('#')).cloned().collect();
            out.push(St { sh: Arc::new(Mutex::new(sh)), file: bytes, model, depth: 0, canon, trace: vec![], seed: Arc::new(seed_cmds) });
        }
        out
    }

    fn actions(&self, s: &St, actions: &mut Vec<Op>) {
        if s.depth < self.max_depth {
            actions.extend(self.ops.iter().copied());
        }
    }

    fn next_state(&self, s: &St, op: Op) -> Option<St> {
        self.shared.transitions.fetch_add(1, Ordering::Relaxed);
        let (sh, file) = self.step_impl(s, op);
        let mut model = s.model.clone();
        model.apply(op);
        let mut trace = s.trace.clone();
        trace.push(op);
        // (1) agreement with the reference model after every step
        self.shared.validated.fetch_add(1, Ordering::Relaxed);
        let got_items = impl_items(&sh);
        let got_file = file_lines(&file);
        self.shared.observed.lock().unwrap().insert(crate::engine::report::hash_str(&format!("{:?}|{:?}", got_file, got_items)));
        if got_file != model.file {
            self.record(&trace, "file-vs-model", format!("{:?}", model.file), format!("{:?}", got_file));
        }
        let items_cmp: Vec<(String, Option<i64>)> = got_items.iter().map(|i| (i.0.clone(), i.1)).collect();
        let model_cmp: Vec<(String, Option<i64>)> = model.items.iter().map(|i| (i.0.clone(), i.1)).collect();
        if items_cmp != model_cmp {
            self.record(&trace, "session-vs-model", format!("{:?}", model_cmp), format!("{:?}", items_cmp));
        }
        // (2) the statement's invariants, directly on the real file
        if matches!(op, Op::Save) {
            // every recorded command that is still in the session is now in the file …
            let cmds: Vec<&String> = got_file.iter().filter(|l| !l.starts_with('#')).collect();
            for it in got_items.iter().filter(|i| !i.0.starts_with('#')) {
                if !cmds.iter().any(|c| **c == it.0) {
                    self.record(&trace, "saved-item-missing", format!("{:?} in the file", it.0), format!("{:?}", got_file));
                }
            }
            // … and saving again without new commands adds nothing
            let st2 = St { sh: Arc::new(Mutex::new(sh.clone())), file: file.clone(), model: model.clone(), depth: 0, canon: String::new(), trace: vec![], seed: s.seed.clone() };
            let (_, file2) = self.step_impl(&st2, Op::Save);
            if file2 != file {
                self.record(&trace, "second-save-adds", format!("{:?}", got_file), format!("{:?}", file_lines(&file2)));
            }
        }
        if !trace.iter().any(|o| matches!(o, Op::DeleteFirst | Op::DeleteLast | Op::DeleteSecondLast | Op::Clear | Op::HistW)) {
            // histories of add/save/new-session/toggle only: the file's commands (everything but `#<digits>`
            // timestamp lines) form a subsequence of the recorded sequence — each recorded command at most
            // once and in recording order
            let mut recorded: Vec<String> = s.seed.as_ref().clone();
            recorded.extend(trace.iter().filter_map(|o| if let Op::Add(i) = o { Some(CMDS[*i as usize].trim().to_string()) } else { None }));
            let is_ts = |l: &str| l.len() > 1 && l.starts_with('#') && l[1..].chars().all(|c| c.is_ascii_digit());
            let cmds: Vec<String> = got_file.iter().filter(|l| !is_ts(l)).cloned().collect();
            let mut k = 0;
            for c in &cmds {
                while k < recorded.len() && &recorded[k] != c {
                    k += 1;
                }
                if k == recorded.len() {
                    self.record(&trace, "exactly-once-in-order", format!("a subsequence of {:?}", recorded), format!("{:?}", cmds));
                    break;
                }
                k += 1;
            }
        }
        if matches!(op, Op::NewSession) {
            // reloading yields the sequence the file holds, timestamps attached to their command
            let expect = RefModel::import(&got_file);
            let e: Vec<(String, Option<i64>)> = expect.iter().map(|i| (i.0.clone(), i.1)).collect();
            if items_cmp != e {
                self.record(&trace, "reload-equals-file", format!("{:?}", e), format!("{:?}", items_cmp));
            }
        }
        // timestamps stay attached: a `#<epoch>` line is followed by the command recorded with that time
        for w in got_file.windows(2) {
            if let Some(t) = w[0].strip_prefix('#').and_then(|x| x.parse::<i64>().ok()) {
                if ts_of(&w[1]) != t {
                    self.record(&trace, "timestamp-attached", format!("#{t} followed by its command"), format!("{:?}", got_file));
                }
            }
        }
        {
            let mut smp = self.shared.samples.lock().unwrap();
            if smp.len() < 6 && trace.len() >= 4 && trace.iter().any(|o| matches!(o, Op::Save)) && trace.iter().any(|o| matches!(o, Op::NewSession)) {
                smp.push(json!({"ops": trace.iter().map(|o| op_name(*o)).collect::<Vec<_>>(), "file": got_file, "session": items_cmp.iter().map(|i| i.0.clone()).collect::<Vec<_>>()}));
            }
        }
        let canon = canon_of(&sh, &file, model.tsflag);
        Some(St { sh: Arc::new(Mutex::new(sh)), file, model, depth: s.depth + 1, canon, trace, seed: s.seed.clone() })
    }

    fn properties(&self) -> Vec<Property<Self>> {
        // violations are collected on the side so that the search always covers the whole bounded space
        vec![Property::always("explore-all", |_: &HistModel, _: &St| true)]
    }
}

fn parse_ops(case: &str) -> Vec<Op> {
    case.split("; ")
        .filter_map(|t| {
            let t = t.trim();
            all_ops().into_iter().find(|o| op_name(*o) == t)
        })
        .collect()
}

pub fn run(tier: Tier, replay: Option<Value>) -> ! {
    let mut rep = Report::new("C20", tier, "model_checking");
    let rt = Arc::new(tokio::runtime::Builder::new_multi_thread().worker_threads(2).enable_all().build().unwrap());
    let dir = crate::engine::procs::scratch_root().join("c20");
    std::fs::create_dir_all(&dir).unwrap();
    let shared = Arc::new(Shared { failures: Mutex::new(vec![]), transitions: AtomicU64::new(0), validated: AtomicU64::new(0), samples: Mutex::new(vec![]), observed: Mutex::new(Default::default()) });
    if let Some(r) = replay {
        rep.replay_mode = true;
        let ops = parse_ops(r["case"].as_str().unwrap_or(""));
        let m = HistModel { rt, dir, max_depth: 100, shared: shared.clone(), ops: all_ops() };
        let mut s = m.init_states().remove(0);
        for o in ops {
            s = m.next_state(&s, o).unwrap();
        }
        for f in shared.failures.lock().unwrap().drain(..) {
            rep.fail(f);
        }
        rep.finish();
    }
    let depth: u8 = tier.pick(5, 7);
    let run_once = |threads: usize| -> (usize, u64) {
        let sh = Arc::new(Shared { failures: Mutex::new(vec![]), transitions: AtomicU64::new(0), validated: AtomicU64::new(0), samples: Mutex::new(vec![]), observed: Mutex::new(Default::default()) });
        let m = HistModel { rt: rt.clone(), dir: dir.clone(), max_depth: depth, shared: sh.clone(), ops: all_ops() };
        let c = m.checker().threads(threads).spawn_bfs().join();
        (c.unique_state_count(), sh.transitions.load(Ordering::Relaxed))
    };
    let m = HistModel { rt: rt.clone(), dir: dir.clone(), max_depth: depth, shared: shared.clone(), ops: all_ops() };
    let threads = crate::engine::pool::ncpu();
    let checker = m.checker().threads(threads).spawn_bfs().join();
    let states = checker.unique_state_count();
    let transitions = shared.transitions.load(Ordering::Relaxed);
    // determinism of the exploration itself: a second run must see the same state and transition counts
    let (states2, trans2) = if tier == Tier::Quick { run_once(threads) } else { run_once(threads) };
    if states2 != states || trans2 != transitions {
        crate::engine::report::machinery_fail(&format!("nondeterministic exploration: {states}/{transitions} vs {states2}/{trans2}"));
    }
    rep.evaluations = transitions;
    rep.nontrivial_extra = states as u64;
    rep.set("states", states as u64);
    rep.set("transitions", transitions);
    rep.set("traces_validated_against_impl", shared.validated.load(Ordering::Relaxed));
    rep.set("max_depth", depth as u64);
    rep.set("operations", all_ops().iter().map(|o| op_name(*o)).collect::<Vec<_>>());
    rep.set("second_run_same_counts", true);
    rep.rule = format!(
        "breadth-first search (stateright) over all sequences of <= {depth} operations from the 12-operation alphabet; every transition executes the real Shell/History code on a cloned Shell plus the real history file and is compared with the reference model; a state is (session items with timestamp and dirty flag, file bytes, timestamp flag, depth); distinct_nontrivial = unique states"
    );
    for s in shared.samples.lock().unwrap().iter() {
        rep.sample(s.clone());
    }
    if rep.samples.is_empty() {
        rep.sample(json!({"ops": ["add(\"a\")", "save", "new-session"]}));
    }
    let mut obs = std::collections::BTreeSet::new();
    for f in shared.failures.lock().unwrap().drain(..) {
        obs.insert(f.observed.clone());
        rep.fail(f);
    }
    for h in shared.observed.lock().unwrap().iter() {
        rep.observations.insert(*h);
    }
    rep.assumptions.push("timestamps are made deterministic through History::update_by_id right after add_to_history (wall clock replaced by a per-command constant)".into());
    rep.assumptions.push("commands are single-line; multi-line commands are outside the statement".into());
    rep.finish()
}
