//! C12 — subshell isolation: nothing done in a subshell changes the parent shell.
//! All mutator sequences up to a length bound inside every kind of subshell context; the parent's state
//! (serde dump of the whole Shell + builtin enablement + process-level umask, RLIMIT_NOFILE, cwd,
//! descriptor count) is compared before and after. Self-differential, no bash needed.

use crate::engine::enumerate;
use crate::engine::inproc::{Inproc, Sh, ShellCfg};
use crate::engine::pool::{self, Handler, Outcome, PoolCfg};
use crate::engine::report::{Failure, Report, Tier};
use serde_json::{Value, json};

pub const MUTATORS: &[(&str, &str)] = &[
    ("assign", "pv=changed"),
    ("assign-new", "newv=1"),
    ("unset-var", "unset pv"),
    ("unset-func", "unset -f pf"),
    ("define-func", "newf() { :; }"),
    ("redefine-func", "pf() { echo other; }"),
    ("set-o", "set -o noglob"),
    ("set-e", "set -e"),
    ("set+o", "set +o braceexpand"),
    ("shopt-s", "shopt -s extglob nullglob"),
    ("shopt-u", "shopt -u sourcepath"),
    ("alias", "alias na=nb"),
    ("unalias", "unalias -a"),
    ("trap-exit", "trap 'echo TE >/dev/null' EXIT"),
    ("trap-usr1", "trap ':' USR1"),
    ("trap-remove", "trap - USR2"),
    ("cd", "cd /"),
    ("umask", "umask 077"),
    ("ulimit", "ulimit -n 200"),
    ("positional", "set -- p q r"),
    ("shift", "shift"),
    ("exec-fd", "exec 3>f3"),
    ("exec-stdout", "exec >/dev/null"),
    ("exec-close", "exec 4>&-"),
    ("exit", "exit 3"),
    // `exec` with a command replaces the SUBSHELL only (every option form)
    ("exec-cmd", "exec vtrue"),
    ("exec-a-cmd", "exec -a nm vtrue"),
    ("exec-c-cmd", "exec -c vtrue"),
    ("exec-l-cmd", "exec -l vtrue"),
    ("export", "export pv"),
    ("export-new", "export NE=1"),
    ("readonly", "readonly pv"),
    ("declare-assoc", "declare -A am=([k]=v)"),
    ("declare-int", "declare -i pv"),
    ("array-elem", "pa[1]=changed"),
    ("pushd", "pushd / >/dev/null"),
    ("hash", "hash -r"),
    ("enable-n", "enable -n echo"),
    ("ifs", "IFS=:"),
    ("path", "PATH=/nonexistent"),
    ("optind", "OPTIND=5"),
    ("local-in-func", "lf() { local pv=l; pv=m; }; lf"),
    ("complete", "complete -W x cmd"),
    ("read", "read pv <<<fromread"),
];

pub const CONTEXTS: &[(&str, &str, &str)] = &[
    ("subshell", "( ", "\n)"),
    ("cmdsub", "rr__=$( ", "\n)"),
    ("backquote", "rr__=` ", "\n`"),
    ("pipe-nonfinal", "{ ", "\n} | vcat >/dev/null"),
    ("pipe-final", "vtrue | { ", "\n}"),
    ("background", "{ ", "\n} & wait"),
    ("procsub", "vcat <( ", "\n) >/dev/null"),
    ("coproc", "coproc { ", "\n}; wait"),
    ("nested-subshell", "( ( ", "\n) )"),
    ("func-subshell-body", "fsb() ( ", "\n); fsb"),
    ("pipe-first-of-3", "{ ", "\n} | vcat | vcat >/dev/null"),
    ("pipe-middle-of-3", "vtrue | { ", "\n} | vcat >/dev/null"),
    ("pipe-third-of-4", "vtrue | vcat | { ", "\n} | vcat >/dev/null"),
    ("cmdsub-in-pipe-final", "vtrue | rr__=$( ", "\n)"),
    // `&` ending the LAST command of a nested list (group, function body, loop body, if branch)
    ("amp-last-in-group", "{ { ", "\n} & }; wait"),
    ("amp-last-in-function", "afn() { { ", "\n} & }; afn; wait"),
    ("amp-last-in-loop", "for q__ in 1; do { ", "\n} & done; wait"),
    ("amp-last-in-if", "if true; then { ", "\n} & fi; wait"),
    ("amp-last-in-case", "case a in a) { ", "\n} & ;; esac; wait"),
    // the job collected by `wait` with a job specification (the job's way of ending must stay the job's)
    ("background-wait-jobspec", "{ ", "\n} & wait %1"),
    ("background-wait-current", "{ ", "\n} & wait %%"),
    ("background-wait-jobspec-in-function", "bwf() { { ", "\n} & wait %1; }; bwf"),
    ("background-wait-jobspec-in-loop", "for q__ in 1 2; do { ", "\n} & wait %+; done"),
];

/// Options of the PARENT under which the same contexts must still isolate (set before the state dump).
pub const PARENT_MODES: &[(&str, &str)] = &[("default", ""), ("lastpipe", "shopt -s lastpipe\n"), ("pipefail", "set -o pipefail\n"), ("posix", "set -o posix\n"), ("lastpipe+pipefail", "shopt -s lastpipe; set -o pipefail\n")];

const VOLATILE_VARS: &[&str] = &["_", "BASH_COMMAND", "PIPESTATUS", "RANDOM", "SRANDOM", "SECONDS", "LINENO", "rr__", "q__", "COPROC", "COPROC_PID", "EPOCHSECONDS", "EPOCHREALTIME", "BASH_SUBSHELL", "FUNCNAME", "BASH_LINENO", "BASH_SOURCE", "BASH_ARGV", "BASH_ARGC"];

fn scrub(v: &mut Value) {
    if let Value::Object(m) = v {
        for k in ["last_exit_status", "last_exit_status_change_count", "last_pipeline_statuses", "last_stopwatch_time", "last_stopwatch_offset", "program_location_cache", "depth"] {
            m.remove(k);
        }
    }
    // remove volatile variables from every scope map
    fn strip(v: &mut Value) {
        match v {
            Value::Object(m) => {
                for k in VOLATILE_VARS {
                    m.remove(*k);
                }
                for (_, x) in m.iter_mut() {
                    strip(x);
                }
            }
            Value::Array(a) => {
                for x in a {
                    strip(x);
                }
            }
            _ => {}
        }
    }
    // the context line itself defines `fsb` in the parent (function with a subshell body)
    if let Some(f) = v.get_mut("funcs").and_then(|f| f.get_mut("functions")).and_then(|f| f.as_object_mut()) {
        f.remove("fsb");
        f.remove("afn");
        f.remove("bwf");
    }
    if let Some(env) = v.get_mut("env") {
        strip(env);
        if let Some(o) = env.as_object_mut() {
            o.remove("entry_count");
        }
    }
}

fn dump(sh: &Sh) -> Value {
    let mut j = serde_json::to_value(sh).unwrap_or(Value::Null);
    scrub(&mut j);
    let mut b: Vec<(String, bool)> = sh.builtins().iter().map(|(k, r)| (k.clone(), r.disabled)).collect();
    b.sort();
    let disabled: Vec<String> = b.into_iter().filter(|x| x.1).map(|x| x.0).collect();
    let um = unsafe {
        let m = libc::umask(0);
        libc::umask(m);
        m
    };
    let mut rl = libc::rlimit { rlim_cur: 0, rlim_max: 0 };
    unsafe { libc::getrlimit(libc::RLIMIT_NOFILE, &mut rl) };
    let cwd = std::env::current_dir().map(|p| p.to_string_lossy().into_owned()).unwrap_or_default();
    json!({"shell": j, "disabled_builtins": disabled, "umask": format!("{:03o}", um), "rlimit_nofile": [rl.rlim_cur, rl.rlim_max], "process_cwd": cwd})
}

fn diff(a: &Value, b: &Value, path: &str, out: &mut Vec<String>) {
    if out.len() > 12 {
        return;
    }
    match (a, b) {
        (Value::Object(x), Value::Object(y)) => {
            for (k, v) in x {
                match y.get(k) {
                    Some(w) => diff(v, w, &format!("{path}/{k}"), out),
                    None => out.push(format!("{path}/{k} removed")),
                }
            }
            for k in y.keys() {
                if !x.contains_key(k) {
                    out.push(format!("{path}/{k} added"));
                }
            }
        }
        (Value::Array(x), Value::Array(y)) => {
            if x.len() != y.len() {
                out.push(format!("{path} length {} -> {}", x.len(), y.len()));
            } else {
                for (i, (v, w)) in x.iter().zip(y.iter()).enumerate() {
                    diff(v, w, &format!("{path}[{i}]"), out);
                }
            }
        }
        _ => {
            if a != b {
                out.push(format!("{path}: {} -> {}", crate::engine::report::truncate(&a.to_string(), 60), crate::engine::report::truncate(&b.to_string(), 60)));
            }
        }
    }
}

const PARENT_SETUP: &str = "pv=orig; pa=(1 2 3); pf() { echo pf; }; alias pal=x; trap ':' USR2; set -- a b; exec 4>f4\n";

pub fn worker() -> Handler {
    let mut ip = Inproc::new();
    Box::new(move |case: &[u8]| {
        let v: Value = serde_json::from_slice(case).unwrap();
        let script = v["s"].as_str().unwrap_or("").to_string();
        let mode_setup = v["mode"].as_str().unwrap_or("").to_string();
        let dir = ip.fresh_dir();
        let ipr: &Inproc = &ip;
        let nofile_before = unsafe {
            let mut rl = libc::rlimit { rlim_cur: 0, rlim_max: 0 };
            libc::getrlimit(libc::RLIMIT_NOFILE, &mut rl);
            rl
        };
        let out = ipr.rt.block_on(async {
            let mut sh = ipr.build_shell(&dir, &ShellCfg::default()).await;
            ipr.bind_stdio(&mut sh);
            let params = sh.default_exec_params();
            let src = brush_core::SourceInfo::default();
            let _ = sh.run_string(format!("{PARENT_SETUP}{mode_setup}"), &src, &params).await;
            let before = dump(&sh);
            // descriptors of the PROCESS: stragglers of the previous case (an unwaited process substitution)
            // may still be closing theirs; take the count once it has been stable for 3 ms
            let count_fds = || std::fs::read_dir("/proc/self/fd").map(|d| d.count()).unwrap_or(0);
            let mut fds_before = count_fds();
            for _ in 0..100 {
                tokio::time::sleep(std::time::Duration::from_millis(3)).await;
                let n = count_fds();
                if n == fds_before {
                    break;
                }
                fds_before = n;
            }
            let r = sh.run_string(script.clone(), &src, &params).await;
            for _ in 0..10 {
                tokio::task::yield_now().await;
            }
            tokio::time::sleep(std::time::Duration::from_millis(2)).await;
            let flow = match &r {
                Ok(res) => format!("{:?}", matches!(res.next_control_flow, brush_core::ExecutionControlFlow::Normal)),
                Err(e) => format!("error {e}"),
            };
            let after = dump(&sh);
            // asynchronous contexts (process substitution, coprocess) may still be running: a leak is a count
            // that does not come back within half a second
            let mut fds_after = count_fds();
            for _ in 0..100 {
                // (a coprocess legitimately leaves its two descriptors in the parent: nothing to wait for)
                if fds_after == fds_before || script.starts_with("coproc") {
                    break;
                }
                tokio::time::sleep(std::time::Duration::from_millis(5)).await;
                fds_after = count_fds();
            }
            let (mut before, mut after) = (before, after);
            if script.starts_with("coproc") {
                // a coprocess legitimately leaves its two descriptors in the parent
                for x in [&mut before, &mut after] {
                    if let Some(o) = x.get_mut("shell").and_then(|s| s.as_object_mut()) {
                        o.remove("open_files");
                    }
                }
            }
            let mut d = vec![];
            diff(&before, &after, "", &mut d);
            json!({"diff": d, "normal_flow": flow, "fds": [fds_before, fds_after]})
        });
        // restore process-wide state so that one case cannot influence the next
        unsafe {
            libc::umask(0o022);
            libc::setrlimit(libc::RLIMIT_NOFILE, &nofile_before);
        }
        out.to_string().into_bytes()
    })
}

pub fn run(tier: Tier, replay: Option<Value>) -> ! {
    let mut rep = Report::new("C12", tier, "exploration");
    // (script, tags, parent mode index)
    let mut cases: Vec<(String, Vec<String>, usize)> = vec![];
    if let Some(r) = &replay {
        rep.replay_mode = true;
        let c = r["case"].as_str().unwrap_or("");
        let (mode, script) = match c.strip_prefix("[parent: ").and_then(|x| x.split_once("]\n")) {
            Some((m, rest)) => (PARENT_MODES.iter().position(|p| p.0 == m).unwrap_or(0), rest),
            None => (0, c),
        };
        cases.push((script.to_string(), vec![], mode));
    } else {
        let seqs = enumerate::sequences(MUTATORS.len(), tier.pick(2, 3));
        for s in seqs.iter().filter(|s| !s.is_empty()) {
            if s.len() == 3 && tier == Tier::Thorough {
                // length 3: restricted to sequences whose first mutator touches process-wide or table state
                if !matches!(MUTATORS[s[0]].0, "umask" | "ulimit" | "cd" | "exec-fd" | "exec-stdout" | "trap-exit" | "set-e" | "exit") {
                    continue;
                }
            }
            for (cn, open, close) in CONTEXTS {
                if s.len() == 3 && !matches!(*cn, "subshell" | "cmdsub" | "pipe-nonfinal" | "background") {
                    continue;
                }
                let body: String = s.iter().map(|i| MUTATORS[*i].1).collect::<Vec<_>>().join("\n");
                for (mi, (mn, _)) in PARENT_MODES.iter().enumerate() {
                    // quick: the non-default parent modes take the single mutators in every context
                    if mi > 0 && tier == Tier::Quick && s.len() > 1 {
                        continue;
                    }
                    if mi > 0 && s.len() == 3 {
                        continue;
                    }
                    // with lastpipe the final stage legitimately runs in the parent
                    if mn.starts_with("lastpipe") && *cn == "pipe-final" {
                        continue;
                    }
                    let mut tags: Vec<String> = s.iter().map(|i| format!("mut:{}", MUTATORS[*i].0)).collect();
                    tags.sort();
                    tags.dedup();
                    tags.push(format!("ctx:{cn}"));
                    if mi > 0 {
                        tags.push(format!("parent:{mn}"));
                    }
                    cases.push((format!("{open}{body}{close}"), tags, mi));
                }
            }
        }
    }
    let cfg = PoolCfg::new("c12").timeout_ms(6_000);
    let bytes: Vec<Vec<u8>> = cases.iter().map(|(s, _, m)| json!({"s": s, "mode": PARENT_MODES[*m].1}).to_string().into_bytes()).collect();
    let outs = pool::run(&cfg, &bytes);
    for (i, o) in outs.iter().enumerate() {
        rep.evaluations += 1;
        let (script0, tags, mi) = &cases[i];
        let script = &if *mi == 0 { script0.clone() } else { format!("[parent: {}]\n{script0}", PARENT_MODES[*mi].0) };
        match o {
            Outcome::Ok(b) => {
                let v: Value = serde_json::from_slice(b).unwrap_or(Value::Null);
                rep.nontrivial.insert(script.clone());
                let d: Vec<String> = v["diff"].as_array().map(|a| a.iter().map(|x| x.as_str().unwrap_or("").to_string()).collect()).unwrap_or_default();
                rep.observe(&d.join(";"));
                if i % (cases.len() / 5).max(1) == 0 {
                    rep.sample(json!({"script": script, "parent_state_diff": d}));
                }
                if v["normal_flow"].as_str() != Some("true") {
                    let mut t = tags.clone();
                    t.push("parent-control-flow".into());
                    rep.fail(Failure { case: script.clone(), tags: t, expected: "the parent continues normally".into(), observed: format!("parent flow normal={}", v["normal_flow"]), oracle: "parent-continues".into() });
                }
                if !d.is_empty() {
                    // classify by the first differing path
                    let mut t = tags.clone();
                    let first = d[0].clone();
                    let area = first.trim_start_matches('/').split(['/', '[', ':', ' ']).take(2).collect::<Vec<_>>().join("/");
                    t.push(format!("leak:{area}"));
                    rep.fail(Failure { case: script.clone(), tags: t, expected: "parent state unchanged".into(), observed: d.join("; "), oracle: "parent-state-unchanged".into() });
                }
                let f0 = v["fds"][0].as_u64().unwrap_or(0);
                let f1 = v["fds"][1].as_u64().unwrap_or(0);
                if f1 != f0 && !tags.iter().any(|t| t == "ctx:coproc") {
                    let mut t = tags.clone();
                    t.push("leak:process-fds".into());
                    rep.fail(Failure { case: script.clone(), tags: t, expected: format!("{f0} process descriptors"), observed: format!("{f1}"), oracle: "descriptors-unchanged".into() });
                }
            }
            other => {
                let mut t = tags.clone();
                t.push("crash".into());
                rep.fail(Failure { case: script.clone(), tags: t, expected: "completes".into(), observed: other.describe(), oracle: "no-crash".into() });
            }
        }
    }
    // `( ( … ) )` must be nested subshells, not an arithmetic command: compared with bash
    let parse_cases: Vec<String> = ["( (echo nested) )", "((echo a) )", "( (echo a); echo b )", "( ( echo a ) | vcat )", "( (echo a) ) > o.txt; vcat o.txt", "x=$( (echo a) ); echo $x", "( (exit 3) ); echo $?", "((1+1)); echo $?", "( ((1+1)) ); echo $?"].iter().map(|s| s.to_string()).collect();
    let b = super::common::run_plain_scripts(&parse_cases, 10_000);
    let o = crate::engine::bash::run_files(crate::engine::bash::BASH, &parse_cases, 10_000);
    for i in 0..parse_cases.len() {
        rep.evaluations += 1;
        let want = format!("{}status={}", o[i].out_str(), o[i].status);
        let got = b[i].crash.clone().unwrap_or_else(|| format!("{}status={}", b[i].out, b[i].status));
        if got != want {
            rep.fail(Failure { case: parse_cases[i].clone(), tags: vec!["nested-paren-parse".into()], expected: want, observed: got, oracle: "bash".into() });
        }
    }
    rep.set("mutators", MUTATORS.len() as u64);
    rep.set("contexts", CONTEXTS.len() as u64);
    rep.rule = format!(
        "all sequences of <= {} mutators over {} ({}) inside each of {} contexts ({}), with the parent under {} option modes ({}; quick: single mutators for the non-default modes); parent state = serde dump of the Shell (minus $?, $_, PIPESTATUS, clocks, path cache) + builtin enablement + process umask, RLIMIT_NOFILE, cwd, descriptor count; plus 9 nested-parenthesis parse probes against bash",
        tier.pick(2, 3),
        MUTATORS.len(),
        MUTATORS.iter().map(|m| m.0).collect::<Vec<_>>().join(", "),
        CONTEXTS.len(),
        CONTEXTS.iter().map(|c| c.0).collect::<Vec<_>>().join(", "),
        PARENT_MODES.len(),
        PARENT_MODES.iter().map(|c| c.0).collect::<Vec<_>>().join(", ")
    );
    rep.assumptions.push("each worker is a private process; process-wide state is reset between cases".into());
    rep.finish()
}
