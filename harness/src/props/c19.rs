//! C19 — syntax highlighting covers the typed line exactly.
//! Exhaustive over all lines on a 16-symbol alphabet up to length 5 (quick) / 6 (thorough), plus the
//! construct corpus, every cursor position on a char boundary; oracle = the span invariants.

use crate::engine::pool::{self, Handler, Outcome, PoolCfg};
use crate::engine::report::{Failure, Report, Tier};
use crate::engine::{inproc, shards};
use brush_interactive::highlighting::highlight_command;
use serde_json::{Value, json};
use std::collections::BTreeSet;

pub const ALPHABET: &[&str] = &["a", " ", "\n", "\"", "'", "`", "\\", "$", "(", ")", "{", "}", "#", "=", "|", "é"];

/// Returns Err(description) when the invariant is violated for (line, cursor).
pub fn check_line(sh: &inproc::Sh, line: &str, cursor: usize) -> Result<(usize, u64), String> {
    let h = highlight_command(sh, line, cursor);
    let spans = h.spans();
    let mut next = 0usize;
    let mut sig: u64 = 0xcbf29ce484222325;
    let mut rebuilt = String::new();
    for (i, sp) in spans.iter().enumerate() {
        if sp.range.start > sp.range.end {
            return Err(format!("span {i} has start > end: {:?}", sp.range));
        }
        if sp.range.end > line.len() {
            return Err(format!("span {i} ends beyond the line: {:?} (len {})", sp.range, line.len()));
        }
        if !line.is_char_boundary(sp.range.start) || !line.is_char_boundary(sp.range.end) {
            return Err(format!("span {i} {:?} is not on a char boundary", sp.range));
        }
        if sp.range.start != next {
            return Err(format!("span {i} starts at {} but the previous one ended at {next} (gap/overlap)", sp.range.start));
        }
        next = sp.range.end;
        rebuilt.push_str(&line[sp.range.clone()]);
        sig ^= sp.kind as u64 + 1;
        sig = sig.wrapping_mul(0x100000001b3);
    }
    if next != line.len() {
        return Err(format!("spans cover {next} of {} bytes", line.len()));
    }
    if rebuilt != line {
        return Err("concatenated span texts differ from the line".into());
    }
    Ok((spans.len(), sig))
}

pub fn cursors(line: &str) -> Vec<usize> {
    let mut v: Vec<usize> = line.char_indices().map(|(i, _)| i).collect();
    v.push(line.len());
    v.dedup();
    v
}

pub fn worker() -> Handler {
    let ip = inproc::Inproc::new();
    let dir = ip.root.join("w");
    let _ = std::fs::create_dir_all(&dir);
    let sh = ip.rt.block_on(ip.build_shell(&dir, &inproc::ShellCfg::default()));
    Box::new(move |case: &[u8]| {
        let _keep = &ip;
        let mut lines = 0u64;
        let mut pairs = 0u64;
        let mut multi = 0u64;
        let mut sigs: BTreeSet<u64> = BTreeSet::new();
        let mut fails: Vec<Value> = vec![];
        let mut one = |line: &str| {
            lines += 1;
            let mut nontrivial = false;
            let mut failed = false;
            for c in cursors(line) {
                pairs += 1;
                let r = std::panic::catch_unwind(std::panic::AssertUnwindSafe(|| check_line(&sh, line, c)));
                match r {
                    Ok(Ok((n, sig))) => {
                        if n > 1 {
                            nontrivial = true;
                        }
                        if sigs.len() < 4096 {
                            sigs.insert(sig);
                        }
                    }
                    Ok(Err(e)) => {
                        if !failed && fails.len() < 50 {
                            failed = true;
                            fails.push(json!({"line": line, "cursor": c, "err": e}));
                        }
                    }
                    Err(_) => {
                        let p = pool::take_last_panic().unwrap_or_default();
                        if !failed && fails.len() < 50 {
                            failed = true;
                            fails.push(json!({"line": line, "cursor": c, "err": format!("panic: {p}")}));
                        }
                    }
                }
            }
            if nontrivial {
                multi += 1;
            }
        };
        let v: Value = serde_json::from_slice(case).unwrap();
        if v.get("lines").is_some() {
            for l in v["lines"].as_array().unwrap() {
                one(l.as_str().unwrap());
            }
        } else {
            shards::for_each_in_case(case, &mut one);
        }
        json!({"lines": lines, "pairs": pairs, "multi": multi, "sigs": sigs.iter().collect::<Vec<_>>(), "fails": fails})
            .to_string()
            .into_bytes()
    })
}

fn tags_for(line: &str) -> Vec<String> {
    let mut t = vec![];
    if !line.is_ascii() {
        t.push("multibyte".to_string());
    }
    if line.contains('`') {
        t.push("backquote".to_string());
    }
    if line.contains("\\`") {
        t.push("escaped-backquote".to_string());
    }
    if line.contains('\n') {
        t.push("newline".to_string());
    }
    t
}

fn absorb(rep: &mut Report, out: &[u8], sigs: &mut BTreeSet<u64>) {
    let v: Value = serde_json::from_slice(out).unwrap_or(Value::Null);
    rep.evaluations += v["pairs"].as_u64().unwrap_or(0);
    rep.add("lines", v["lines"].as_u64().unwrap_or(0));
    rep.nontrivial_extra += v["multi"].as_u64().unwrap_or(0);
    for s in v["sigs"].as_array().cloned().unwrap_or_default() {
        sigs.insert(s.as_u64().unwrap_or(0));
    }
    for f in v["fails"].as_array().cloned().unwrap_or_default() {
        let line = f["line"].as_str().unwrap_or("").to_string();
        rep.fail(Failure {
            case: format!("line={:?} cursor={}", line, f["cursor"]),
            tags: tags_for(&line),
            expected: "spans ordered, contiguous, on char boundaries, covering the line".into(),
            observed: f["err"].as_str().unwrap_or("").to_string(),
            oracle: "span-invariant".into(),
        });
    }
}

pub fn run(tier: Tier, replay: Option<Value>) -> ! {
    let mut rep = Report::new("C19", tier, "exploration");
    let cfg = PoolCfg::new("c19").timeout_ms(120_000);
    let mut sigs = BTreeSet::new();
    if let Some(r) = replay {
        rep.replay_mode = true;
        let line = r["case"].as_str().unwrap_or("");
        // case format: line="..." cursor=N  → re-run all cursors of the recorded line
        let l: String = serde_json::from_str(line.trim_start_matches("line=").rsplit_once(" cursor=").map(|x| x.0).unwrap_or("\"\"")).unwrap_or_default();
        let outs = pool::run(&cfg, &[json!({"lines":[l]}).to_string().into_bytes()]);
        if let Outcome::Ok(b) = &outs[0] {
            absorb(&mut rep, b, &mut sigs);
        }
        rep.finish();
    }
    let max_len = tier.pick(5, 6);
    rep.rule = format!(
        "all lines over the {}-symbol alphabet {:?} with <= {} symbols, plus the construct corpus (templates, boundary substitutions, token mutations, nestings), each with every cursor position on a char boundary; a line is non-trivial when the highlighter returns more than one span; distinct_observations counts distinct span-kind sequences",
        ALPHABET.len(), ALPHABET, max_len
    );
    let r = if std::env::var_os("VCHECK_SKIP_ALPHA").is_some() {
        shards::ShardedResult { ok: vec![], crashes: vec![], shards_run: 0 }
    } else {
        shards::run_sharded(&cfg, ALPHABET, max_len, 2, &Value::Null)
    };
    rep.set("shards", r.shards_run as u64);
    for (_, out) in &r.ok {
        absorb(&mut rep, out, &mut sigs);
    }
    for (line, o) in &r.crashes {
        rep.fail(Failure {
            case: format!("line={:?} cursor=*", line),
            tags: tags_for(line),
            expected: "highlighter returns".into(),
            observed: o.describe(),
            oracle: "no-crash".into(),
        });
    }
    // corpus lines
    let corpus = crate::corpus::lines(tier);
    rep.set("corpus_lines", corpus.len() as u64);
    let cfg1 = PoolCfg::new("c19").timeout_ms(3_000);
    let cfg = PoolCfg::new("c19").timeout_ms(10_000).no_confirm();
    let chunks: Vec<Vec<u8>> = corpus.chunks(50).map(|c| json!({"lines": c}).to_string().into_bytes()).collect();
    let outs = pool::run(&cfg, &chunks);
    for (i, o) in outs.iter().enumerate() {
        match o {
            Outcome::Ok(b) => absorb(&mut rep, b, &mut sigs),
            other => {
                // isolate line by line
                let singles: Vec<Vec<u8>> = corpus.chunks(50).nth(i).unwrap().iter().map(|l| json!({"lines":[l]}).to_string().into_bytes()).collect();
                let o2 = pool::run(&cfg1, &singles);
                for (l, o) in corpus.chunks(50).nth(i).unwrap().iter().zip(o2) {
                    match o {
                        Outcome::Ok(b) => absorb(&mut rep, &b, &mut sigs),
                        bad => rep.fail(Failure {
                            case: format!("line={:?} cursor=*", l),
                            tags: tags_for(l),
                            expected: "highlighter returns".into(),
                            observed: bad.describe(),
                            oracle: "no-crash".into(),
                        }),
                    }
                }
                let _ = other;
            }
        }
    }
    for s in &sigs {
        rep.observations.insert(*s);
    }
    rep.sample(json!({"line": "a\"$(é`", "cursors": cursors("a\"$(é`")}));
    rep.sample(json!({"line": "\"`\\`é`\"", "cursors": cursors("\"`\\`é`\"")}));
    if let Some(l) = corpus.get(corpus.len() / 2) {
        rep.sample(json!({"line": l}));
    }
    rep.set("bound", format!("length <= {max_len} over {} symbols", ALPHABET.len()));
    rep.assumptions.push("the shell used for command classification is a default in-process shell (no aliases/functions defined)".into());
    rep.finish()
}
