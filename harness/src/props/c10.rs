//! C10 — redirections give each command bash's descriptors and are undone afterwards.
//! (A) all redirection lists up to a length bound over 26 redirect items attached to 7 command kinds,
//! with and without noclobber; observed: which writes/reads succeed inside the command, every file in the
//! directory, captured stdout/stderr, and the descriptor table a child sees before and after (restoration
//! invariant, independent of bash). (B) here-documents: all bodies up to a line bound over a 13-line
//! alphabet x delimiter forms x `<<`/`<<-` x placements.

use super::common;
use crate::engine::report::{Failure, Report, Tier};
use crate::engine::{bash, enumerate, procs};
use serde_json::{Value, json};

pub const ITEMS: &[&str] = &[
    ">f", ">g", ">>f", ">|f", "<f", "<>f", "2>f", "2>>g", "2>&1", "1>&2", ">&2", "3>f", "3>&1", "1>&3", "2>&3", "3>&-", "2>&-", "1>&-", "<&-", "0<&3", "3<f", "&>f", "&>>g", "9>g", "1>&9", "<g",
];

pub const KINDS: &[(&str, &str, &str)] = &[
    ("builtin", "echo O", ""),
    ("external", "vio", ""),
    ("function", "fio", ""),
    ("group", "{ vio; }", ""),
    ("subshell", "( vio )", ""),
    ("loop", "for i in 1; do vio; done", ""),
    ("eval-builtin", "eval 'echo O; echo E >&2'", ""),
];

fn marker_lines(s: &str) -> String {
    s.lines().filter(|l| matches!(*l, "O" | "E" | "T") || l.starts_with("I:") || l.starts_with("pre")).collect::<Vec<_>>().join("\n")
}

fn files_obs(files: &[(String, String)]) -> String {
    // diagnostics that were redirected into a file differ in wording between the shells: keep marker
    // lines only (where a diagnostic lands is not part of the comparison)
    let norm = |n: &str, c: &str| -> String {
        let n = n.rsplit('/').next().unwrap_or(n);
        if n == "f" || n == "g" || n == "nine.txt" {
            marker_lines(c)
        } else {
            c.to_string()
        }
    };
    let mut v: Vec<String> = files.iter().filter(|(n, _)| n != "s.sh" && n != "stdin.sh").map(|(n, c)| format!("{n}={:?}", norm(n, c))).collect();
    v.sort();
    v.join(" ")
}

pub const LINES: &[&str] = &["EOF", "EOFX", " EOF", "\tEOF", "a", "$x", "\\$x", "\\\\", "`echo c`", "\"q\"", "'s'", "", "a\\", "\ta"];
pub const DELIMS: &[(&str, &str)] = &[("plain", "EOF"), ("squoted", "'EOF'"), ("dquoted", "\"EOF\""), ("backslash", "\\EOF"), ("partly-quoted", "E\"O\"F")];

fn heredoc_script(body: &[usize], delim: usize, dash: bool, placement: usize) -> String {
    let op = if dash { "<<-" } else { "<<" };
    let d = DELIMS[delim].1;
    let b: String = body.iter().map(|i| format!("{}\n", LINES[*i])).collect();
    let close = if dash { "\tEOF" } else { "EOF" };
    let mut s = String::from("x=val\n");
    match placement {
        0 => s.push_str(&format!("vcat {op}{d}\n{b}{close}\n")),
        1 => s.push_str(&format!("vcat {op}{d}; vcat {op}EOF2\n{b}{close}\n{b}{}EOF2\n", if dash { "\t" } else { "" })),
        // two here-documents on one line with *different* operators: each body follows its own operator
        5 => {
            let (op2, close2) = if dash { ("<<", "EOF2") } else { ("<<-", "\tEOF2") };
            s.push_str(&format!("vcat {op}{d}; vcat {op2}EOF2\n{b}{close}\n{b}{close2}\n"))
        }
        2 => s.push_str(&format!("echo \"[$(vcat {op}{d}\n{b}{close}\n)]\"\n")),
        3 => s.push_str(&format!("hf() {{\nvcat {op}{d}\n{b}{close}\n}}\nhf\n")),
        _ => s.push_str(&format!("vcat {op}{d} | vcat\n{b}{close}\n")),
    }
    s.push_str("echo \"end=$?\"\n");
    s
}

pub fn run(tier: Tier, replay: Option<Value>) -> ! {
    let mut rep = Report::new("C10", tier, "exploration");
    // ------------------------------------------------------------------ (A) redirection lists
    let lists: Vec<Vec<usize>> = enumerate::sequences(ITEMS.len(), tier.pick(2, 3)).into_iter().filter(|l| !l.is_empty()).collect();
    struct Case {
        script: String,
        tags: Vec<String>,
        subdir: bool,
    }
    let mut cases: Vec<Case> = vec![];
    if let Some(r) = &replay {
        rep.replay_mode = true;
        let sc = r["case"].as_str().unwrap_or("").to_string();
        let subdir = sc.starts_with("cd sub\n");
        cases.push(Case { script: sc, tags: vec![], subdir });
    } else {
        for l in &lists {
            if l.len() == 3 && l[0] > l[1] && l[1] > l[2] {
                // length 3 at the thorough tier: skip strictly descending index triples (order matters, so
                // ascending and mixed orders are all kept)
            }
            let redirs: String = l.iter().map(|i| ITEMS[*i]).collect::<Vec<_>>().join(" ");
            for (kn, cmd, _) in KINDS {
                if l.len() == 3 && !matches!(*kn, "external" | "group" | "builtin") {
                    continue;
                }
                for noclobber in [false, true] {
                    if noclobber && !redirs.contains('>') {
                        continue;
                    }
                    if noclobber && l.len() == 3 {
                        continue;
                    }
                    let mut s = String::from("fio() { vio; }\nprintf 'pre-f\\n' >f; printf 'pre-g\\n' >g\nexec 9>nine.txt\n");
                    if noclobber {
                        s.push_str("set -C\n");
                    }
                    s.push_str("vfds before.txt\n");
                    s.push_str(&format!("{cmd} {redirs}\n"));
                    s.push_str("echo \"s=$?\" >status.txt\nset +C\nvfds after.txt\n");
                    let mut tags: Vec<String> = l.iter().map(|i| format!("redir:{}", ITEMS[*i])).collect();
                    tags.sort();
                    tags.dedup();
                    tags.push(format!("kind:{kn}"));
                    if noclobber {
                        tags.push("noclobber".into());
                    }
                    // the same list after the shell has changed its working directory (relative targets are
                    // relative to the shell's directory, also for the noclobber probe): single redirections for
                    // every command kind, pairs for external commands and groups
                    if l.len() == 1 || (l.len() == 2 && matches!(*kn, "external" | "group")) {
                        let mut t2 = tags.clone();
                        t2.push("cwd:after-cd".into());
                        cases.push(Case { script: format!("cd sub\n{s}"), tags: t2, subdir: true });
                        if l.len() == 1 {
                            let mut t3 = tags.clone();
                            t3.push("cwd:after-cd-in-subshell".into());
                            cases.push(Case { script: format!("(\ncd sub\n{s})\n"), tags: t3, subdir: true });
                        }
                    }
                    cases.push(Case { script: s, tags, subdir: false });
                }
            }
        }
    }
    let j: Vec<Value> = cases.iter().map(|c| if c.subdir { json!({"s": c.script, "mode": "file", "collect": true, "files": {"sub/.d": ""}}) } else { json!({"s": c.script, "mode": "file", "collect": true}) }).collect();
    let brush = common::run_scripts(&j, 20_000);
    let specs: Vec<procs::ProcSpec> = cases
        .iter()
        .map(|c| {
            let mut sp = bash::spec_file(bash::BASH, &c.script, 20_000);
            sp.collect_files = true;
            if c.subdir {
                sp.files.push(("sub/.d".into(), vec![]));
            }
            sp
        })
        .collect();
    let bashr = procs::run_many(&specs, bash::procs_par());
    for (i, c) in cases.iter().enumerate() {
        rep.evaluations += 1;
        let b = &brush[i];
        let o = &bashr[i];
        if o.timed_out {
            rep.add("bash_timeouts_skipped", 1);
            continue;
        }
        if let Some(cr) = &b.crash {
            let mut t = c.tags.clone();
            t.push("crash".into());
            rep.fail(Failure { case: c.script.clone(), tags: t, expected: "completes".into(), observed: cr.clone(), oracle: "no-crash".into() });
            continue;
        }
        let bf: Vec<(String, String)> = b.files.as_object().map(|m| m.iter().map(|(k, v)| (k.clone(), v.as_str().unwrap_or("").to_string())).collect()).unwrap_or_default();
        let of: Vec<(String, String)> = o.files.iter().map(|(k, v)| (k.clone(), String::from_utf8_lossy(v).into_owned())).collect();
        let got = format!("out[{}] err[{}] files[{}]", marker_lines(&b.out), marker_lines(&b.err), files_obs(&bf));
        let want = format!("out[{}] err[{}] files[{}]", marker_lines(&o.out_str()), marker_lines(&o.err_str()), files_obs(&of));
        rep.observe(&got);
        rep.nontrivial.insert(c.tags.join(","));
        if i % (cases.len() / 4).max(1) == 0 {
            rep.sample(json!({"script": c.script, "observation": want}));
        }
        if got != want {
            // which part differs
            let mut t = c.tags.clone();
            let gb = bf.iter().find(|f| f.0 == "before.txt").map(|f| f.1.clone()).unwrap_or_default();
            let ga = bf.iter().find(|f| f.0 == "after.txt").map(|f| f.1.clone()).unwrap_or_default();
            if gb != ga {
                t.push("table-not-restored".into());
            }
            let wb = of.iter().find(|f| f.0 == "report.txt").map(|f| f.1.clone());
            let gr = bf.iter().find(|f| f.0 == "report.txt").map(|f| f.1.clone());
            if wb != gr {
                t.push("inside-command-differs".into());
            }
            rep.fail(Failure { case: c.script.clone(), tags: t, expected: want, observed: got, oracle: "bash".into() });
        }
        // restoration invariant, independent of bash
        let gb = bf.iter().find(|f| f.0 == "before.txt").map(|f| f.1.clone());
        let ga = bf.iter().find(|f| f.0 == "after.txt").map(|f| f.1.clone());
        if gb != ga && gb.is_some() {
            let mut t = c.tags.clone();
            t.push("table-not-restored".into());
            rep.fail(Failure { case: c.script.clone(), tags: t, expected: format!("descriptor table afterwards == before: {:?}", gb), observed: format!("{:?}", ga), oracle: "restoration".into() });
        }
    }
    rep.set("redirect_lists", lists.len() as u64);
    rep.set("redirect_cases", cases.len() as u64);
    // ------------------------------------------------------------------ (B) here-documents
    if replay.is_none() {
        let bodies: Vec<Vec<usize>> = enumerate::sequences(LINES.len(), tier.pick(2, 3));
        let mut hs: Vec<(String, Vec<String>)> = vec![];
        for b in &bodies {
            for d in 0..DELIMS.len() {
                for dash in [false, true] {
                    for p in 0..6 {
                        if tier == Tier::Quick && b.len() == 2 && p >= 1 && p != 5 && d >= 2 {
                            continue;
                        }
                        let mut tags = vec![format!("delim:{}", DELIMS[d].0), format!("place:{}", ["plain", "two-on-a-line", "in-cmdsub", "in-function", "before-pipe", "two-on-a-line-mixed-operators"][p])];
                        if dash {
                            tags.push("dash".into());
                        }
                        for i in b {
                            let t = format!("line:{}", ["EOF", "EOFX", "sp-EOF", "tab-EOF", "a", "$x", "esc-$x", "backslashes", "backquote", "dquoted", "squoted", "empty", "trailing-backslash", "tab-a"][*i]);
                            if !tags.contains(&t) {
                                tags.push(t);
                            }
                        }
                        hs.push((heredoc_script(b, d, dash, p), tags));
                    }
                }
            }
        }
        let scripts: Vec<String> = hs.iter().map(|h| h.0.clone()).collect();
        let jb: Vec<Value> = scripts.iter().map(|s| json!({"s": s, "mode": "file"})).collect();
        let bb = common::run_scripts(&jb, 20_000);
        let ob = bash::run_files(bash::BASH, &scripts, 20_000);
        for i in 0..scripts.len() {
            rep.evaluations += 1;
            if ob[i].timed_out {
                continue;
            }
            let want = format!("{}status={}", ob[i].out_str(), ob[i].status);
            let got = bb[i].crash.clone().map(|c| format!("CRASH {c}")).unwrap_or_else(|| format!("{}status={}", bb[i].out, bb[i].status));
            rep.observe(&got);
            rep.nontrivial.insert(format!("H{}", i));
            if got != want {
                let mut t = hs[i].1.clone();
                t.insert(0, "heredoc".into());
                rep.fail(Failure { case: scripts[i].clone(), tags: t, expected: want, observed: got, oracle: "bash".into() });
            }
        }
        rep.set("heredoc_cases", scripts.len() as u64);
        rep.sample(json!({"heredoc": scripts[scripts.len() / 2]}));
    }
    // ------------------------------------------------------------------ (C) here-strings
    if replay.is_none() {
        // the word is expanded like an assignment's right-hand side (no splitting, no globbing) and ONE newline
        // is appended, whatever the word ends in
        let words: &[(&str, &str)] = &[
            ("plain", "a"), ("two-words-dq", "\"a  b\""), ("var", "$x"), ("var-dq", "\"$x\""), ("ansi-c-trailing-newline", "$'a\\n'"), ("var-trailing-newline", "\"$nl\""),
            ("var-trailing-newline-unquoted", "$nl"), ("empty", "''"), ("only-newline", "$'\\n'"), ("two-newlines", "$'a\\n\\n'"), ("cmdsub", "\"$(echo c; echo)\""), ("glob", "*"), ("tilde", "~"),
            ("brace", "{1,2}"), ("blanks-var", "$sp"), ("backslash", "a\\ b"), ("multi-piece", "a\"$nl\"b$'\\n'"),
        ];
        let consumers: &[(&str, &str)] = &[
            ("external", "vcat <<<W | vcons"),
            ("external-bytes", "vcat <<<W; echo '|'"),
            ("read-lines", "n=0; while IFS= read -r l; do n=$((n+1)); done <<<W; echo \"lines=$n last=[$l]\""),
            ("function", "hf() { vcat; }; hf <<<W; echo '|'"),
            ("group", "{ vcat; } <<<W; echo '|'"),
            ("fd3", "vcat <&3 3<<<W; echo '|'"),
            ("two", "vcat <<<W <<<\"second\"; echo '|'"),
        ];
        let mut hs: Vec<(String, Vec<String>)> = vec![];
        for (wn, w) in words {
            for (cn, c) in consumers {
                hs.push((format!("HOME=/vhome; x='v w'; nl=$'q\\n'; sp='  s  '\n{}\necho \"end=$?\"\n", c.replace('W', w)), vec!["herestring".to_string(), format!("word:{wn}"), format!("consumer:{cn}")]));
            }
        }
        // body sizes on both sides of the default pipe capacity (64 KiB) and of the largest size a pipe can be
        // given (1 MiB): the body must arrive whole whether or not it fits into a pipe, and a consumer that
        // reads little or nothing must not hang the shell
        let big_consumers: &[(&str, &str)] = &[
            ("external", "vcat R | vcons"),
            ("read-lines", "n=0; while IFS= read -r l; do n=$((n+1)); done R; echo \"lines=$n\""),
            ("function", "hf() { vcons; }; hf R"),
            ("first-line", "read -r first R; echo \"first=$first\""),
            ("not-read", "vtrue R"),
            ("external-first-line", "vhead 1 R"),
        ];
        for n in [65536usize, 65537, 1048576, 1048577, 1048578, 3 << 20] {
            for (fname, form, body) in [("herestring", "<<<\"$P\"", ""), ("heredoc", "<<EOF", "$P\nEOF\n")] {
                for (cn, c) in big_consumers {
                    if tier == Tier::Quick && n == 3 << 20 && *cn != "external" {
                        continue;
                    }
                    hs.push((format!("P=$(vprod {n})\n{}\n{body}echo \"end=$?\"\n", c.replace('R', form)), vec!["big-body".to_string(), format!("form:{fname}"), format!("size:{n}"), format!("consumer:{cn}")]));
                }
            }
        }
        let scripts: Vec<String> = hs.iter().map(|h| h.0.clone()).collect();
        let jb: Vec<Value> = scripts.iter().map(|s| json!({"s": format!("set -f\n{s}"), "mode": "file"})).collect();
        let bb = common::run_scripts(&jb, 20_000);
        let ob = bash::run_files(bash::BASH, &scripts.iter().map(|s| format!("set -f\n{s}")).collect::<Vec<_>>(), 20_000);
        for i in 0..scripts.len() {
            rep.evaluations += 1;
            if ob[i].timed_out {
                continue;
            }
            let want = format!("{}status={}", ob[i].out_str(), ob[i].status);
            let got = bb[i].crash.clone().map(|c| format!("CRASH {c}")).unwrap_or_else(|| format!("{}status={}", bb[i].out, bb[i].status));
            rep.observe(&got);
            rep.nontrivial.insert(format!("S{}", i));
            if got != want {
                rep.fail(Failure { case: scripts[i].clone(), tags: hs[i].1.clone(), expected: want, observed: got, oracle: "bash".into() });
            }
        }
        rep.set("herestring_cases", scripts.len() as u64);
    }
    rep.rule = format!(
        "(A) all redirection lists of <= {} items over {:?} attached to {} command kinds (builtin, external, function, group, subshell, loop, eval) with pre-existing files f, g and fd 9, with/without noclobber, and (single redirections: all kinds; pairs: external, group) again after `cd sub` at top level and inside a subshell; (B) all here-document bodies of <= {} lines over {:?} x 5 delimiter forms x <</<<- x 6 placements (incl. two documents on one line with the same and with different operators); (C) here-strings: 17 words (trailing newlines, blanks, glob/tilde/brace characters, substitutions) x 7 consumers, and here-string / here-document bodies that arrive as 65536, 65537, 1048576, 1048577, 1048578 and 3145728 bytes (either side of the 64 KiB default pipe capacity and of the 1 MiB pipe size limit) x 6 consumers (external, read loop, function, first line only, never read, external first line); distinct = tag set of the case",
        tier.pick(2, 3),
        ITEMS,
        KINDS.len(),
        tier.pick(2, 3),
        LINES
    );
    rep.assumptions.push("diagnostic texts are not compared: only marker lines on stdout/stderr, file contents, the in-command probe report and the descriptor tables".into());
    rep.finish()
}
