//! C09 — variable scope and attributes: locals, temporary assignments, export, readonly.
//! All action sequences up to a length bound over ~40 writers/declarations on three names (scalar x,
//! array a, readonly r), at top level and inside function frames of depth 1-3, with `declare -p` dumps
//! and the environment of a child observed after every step; oracle: bash.

use super::common;
use crate::engine::bash;
use crate::engine::enumerate;
use crate::engine::report::{Failure, Report, Tier};
use serde_json::{Value, json};

pub const ACTIONS: &[(&str, &str)] = &[
    ("assign", "x=new"),
    ("append", "x+=app"),
    ("elem-assign", "a[1]=e"),
    ("array-append", "a+=(z)"),
    ("array-assign", "a=(n1 n2)"),
    ("ro-assign", "r=chg"),
    ("ro-append", "r+=more"),
    ("ro-elem", "r[0]=el"),
    ("declare-i", "declare -i x"),
    ("declare-l", "declare -l x; x=MiXed"),
    ("declare-u", "declare -u x; x=MiXed"),
    ("declare-a-x", "declare -a x"),
    ("declare-x", "declare -x x"),
    ("declare+x", "declare +x x"),
    ("local-x", "local x=loc"),
    ("local-a", "local a"),
    ("local-r", "local r=lr"),
    ("export-x", "export x"),
    ("export-a", "export a"),
    ("export-n", "export -n x"),
    ("readonly-x", "readonly x"),
    ("declare-r-a", "declare -r a"),
    ("unset-x", "unset x"),
    ("unset-a", "unset a"),
    ("unset-r", "unset r"),
    ("unset-elem", "unset 'a[0]'"),
    ("unset-ro-elem", "unset 'r[0]'"),
    ("for-x", "for x in f1 f2; do :; done"),
    ("for-r", "for r in q; do :; done"),
    ("read-x", "read x <<<rd"),
    ("read-r", "read r <<<z"),
    ("read-a", "read -a a <<<'r1 r2'"),
    ("printf-v", "printf -v x '%s' pv"),
    ("arith-x", "(( x = 7 ))"),
    ("arith-r", "(( r = 5 ))"),
    ("default-assign", ": ${x:=dflt}"),
    ("getopts", "OPTIND=1; getopts ab: x -a"),
    ("mapfile", "mapfile -t a <<<$'m1\\nm2'"),
    ("tmp-external", "x=tmp venv x"),
    ("tmp-builtin", "x=tmp eval 'echo \"in=$x\"'"),
    ("tmp-function", "tf() { echo \"in=$x\"; x=inner; }; x=tmp tf"),
    ("tmp-ro-external", "r=tmp venv r"),
    ("int-arith-append", "x=5; declare -i x; x+=3"),
    ("tmp-export-check", "x=t1 a=t2 venv x a"),
    // temporary assignments on builtins that fail (status) or abort with an error: the assignment must not survive
    ("tmp-builtin-status", "x=tmp false"),
    ("tmp-builtin-error-read", "x=tmp read r <<<z"),
    ("tmp-builtin-error-printf", "x=tmp printf -v r '%s' q"),
    ("tmp-builtin-error-cd", "x=tmp cd /nonexistent-dir 2>/dev/null"),
    ("tmp-two-builtin-error", "x=t1 a=t2 cd /nonexistent-dir 2>/dev/null"),
    // a function called with a temporary assignment unsets / re-declares that name itself
    ("tmp-function-unset", "tu() { unset x; echo \"in=${x-UNSET}\"; x=afterunset; }; x=tmp tu"),
    ("tmp-function-unset-twice", "tv() { unset x; unset x; echo \"in=${x-UNSET}\"; }; x=tmp tv"),
    ("tmp-function-local", "tw() { local x; echo \"in=${x-UNSET}\"; x=loc; }; x=tmp tw"),
    ("tmp-function-export", "ty() { export x; venv x; }; x=tmp ty"),
    // declaring again a name that is already a local of this very function call (value and attributes carry over)
    ("local-x-bare", "local x"),
    ("local-u-x", "local -u x"),
    ("local-i-x", "local -i x"),
    ("local-r-x", "local -r x=lro"),
    ("declare-x-bare", "declare x"),
];

const PROBE: &str = "pr() { local n; for n in x a r; do declare -p $n 2>/dev/null || echo \"$n: unset\"; done; venv x a r; }\n";
const INIT: &str = "x=ox; a=(1 2); readonly r=ro\n";

fn step(k: usize, a: usize) -> String {
    format!("{}\necho \"s{k}=$?\"; pr\n", ACTIONS[a].1)
}

/// Placements: where the actions run.
fn render(seq: &[usize], placement: usize) -> String {
    let mut s = String::from(PROBE);
    s.push_str(INIT);
    match placement {
        0 => {
            for (k, a) in seq.iter().enumerate() {
                s.push_str(&step(k, *a));
            }
        }
        1 => {
            // all actions inside one function; state probed again after return
            s.push_str("f1() {\n");
            for (k, a) in seq.iter().enumerate() {
                s.push_str(&step(k, *a));
            }
            s.push_str("}\nf1\necho \"after-return\"; pr\n");
        }
        2 => {
            // first action in the caller, the rest in a callee (the callee sees the caller's locals)
            s.push_str("f2() {\n");
            for (k, a) in seq.iter().enumerate().skip(1) {
                s.push_str(&step(k, *a));
            }
            s.push_str("echo in-callee; pr\n}\nf1() {\n");
            s.push_str(&step(0, seq[0]));
            s.push_str("f2\necho back-in-caller; pr\n}\nf1\necho after-return; pr\n");
        }
        _ => {
            // depth 3: one action per frame, innermost first to return
            let n = seq.len();
            for d in (0..n).rev() {
                s.push_str(&format!("g{d}() {{\n{}", step(d, seq[d])));
                if d + 1 < n {
                    s.push_str(&format!("g{}\necho back-in-g{d}; pr\n", d + 1));
                }
                s.push_str("}\n");
            }
            s.push_str("g0\necho after-return; pr\n");
        }
    }
    s
}

fn normalise(out: &str) -> String {
    // bash prints `declare -ar a=(...)`, attribute letter order may differ between shells: sort letters
    out.lines()
        .map(|l| {
            if let Some(rest) = l.strip_prefix("declare -") {
                if let Some((flags, tail)) = rest.split_once(' ') {
                    let mut f: Vec<char> = flags.chars().collect();
                    f.sort();
                    return format!("declare -{} {}", f.iter().collect::<String>(), tail);
                }
            }
            l.to_string()
        })
        .collect::<Vec<_>>()
        .join("\n")
}

pub fn run(tier: Tier, replay: Option<Value>) -> ! {
    let mut rep = Report::new("C09", tier, "exploration");
    let mut metas: Vec<(Vec<usize>, usize)> = vec![];
    let mut scripts: Vec<String> = vec![];
    if let Some(r) = &replay {
        rep.replay_mode = true;
        scripts.push(r["case"].as_str().unwrap_or("").to_string());
        metas.push((vec![], 0));
    } else {
        let seqs: Vec<Vec<usize>> = enumerate::sequences(ACTIONS.len(), tier.pick(2, 3)).into_iter().filter(|s| !s.is_empty()).collect();
        for s in &seqs {
            for placement in 0..4 {
                if placement == 2 && s.len() < 2 {
                    continue;
                }
                if placement == 3 && (s.len() < 2 || (tier == Tier::Quick && s.len() > 2)) {
                    continue;
                }
                // thorough: length-3 sequences at top level and in one function; deeper placements for length <= 2
                if tier == Tier::Thorough && s.len() == 3 && placement >= 2 {
                    continue;
                }
                scripts.push(render(s, placement));
                metas.push((s.clone(), placement));
            }
        }
    }
    let cases: Vec<Value> = scripts.iter().map(|s| json!({"s": s, "mode": "file"})).collect();
    let brush = common::run_scripts(&cases, 20_000);
    let bashr = bash::run_files(bash::BASH, &scripts, 20_000);
    for i in 0..scripts.len() {
        rep.evaluations += 1;
        let o = &bashr[i];
        if o.timed_out {
            rep.add("bash_timeouts_skipped", 1);
            continue;
        }
        let want = format!("{}\nstatus={}", normalise(&o.out_str()), o.status);
        let b = &brush[i];
        let got = match &b.crash {
            Some(c) => format!("CRASH {c}"),
            None => format!("{}\nstatus={}", normalise(&b.out), b.status),
        };
        rep.observe(&got);
        rep.nontrivial.insert(format!("{:?}|{}", metas[i].0, metas[i].1));
        if i % (scripts.len() / 5).max(1) == 0 {
            let pl = ["top", "function", "caller+callee", "depth-3"][metas[i].1];
            rep.sample(json!({"actions": metas[i].0.iter().map(|a| ACTIONS[*a].1).collect::<Vec<_>>(), "placement": pl}));
        }
        if got != want {
            let mut tags: Vec<String> = metas[i].0.iter().map(|a| format!("act:{}", ACTIONS[*a].0)).collect();
            tags.sort();
            tags.dedup();
            tags.push(format!("place:{}", ["top", "function", "caller+callee", "depth-3"][metas[i].1]));
            if b.crash.is_some() {
                tags.push("crash".into());
            }
            // first differing line, for grouping
            let (gl, wl): (Vec<&str>, Vec<&str>) = (got.lines().collect(), want.lines().collect());
            let k = gl.iter().zip(wl.iter()).position(|(a, b)| a != b).unwrap_or(gl.len().min(wl.len()));
            let ctx = format!("first difference at line {k}: brush {:?} vs bash {:?}", gl.get(k).unwrap_or(&"<eof>"), wl.get(k).unwrap_or(&"<eof>"));
            if wl.len() > gl.len() + 3 && !got.starts_with("CRASH") {
                tags.push("brush-stops-early".into());
            }
            rep.fail(Failure { case: scripts[i].clone(), tags, expected: want, observed: format!("{ctx}\n{got}"), oracle: "bash".into() });
        }
    }
    rep.set("actions", ACTIONS.len() as u64);
    rep.rule = format!(
        "all sequences of <= {} actions over {} actions ({}) on x (scalar), a (array), r (readonly), placed at top level, inside one function, split between caller and callee, and one per frame to depth 3; `declare -p x a r` (attribute letters sorted) and a child's environment after every step and after return; distinct = (sequence, placement)",
        tier.pick(2, 3),
        ACTIONS.len(),
        ACTIONS.iter().map(|a| a.0).collect::<Vec<_>>().join(", ")
    );
    rep.assumptions.push("bash 5.2.15 is the oracle; script-file mode on both sides".into());
    rep.finish()
}
