//! Generic in-process script worker shared by the differential checks.
//! Request (JSON):  {"s": script, "mode": "string"|"file"|"dash-c", "files": {rel: content}, "vars": {name: value}, "arrays": {name: [..]},
//!                   "pos": [..], "get": [names], "collect": bool, "opts": [set -o names], "shopts": [..]}
//! Response (JSON): {"o": stdout, "e": stderr, "st": status, "flow": "...", "vars": {name: value|null},
//!                   "files": {rel: content}}

use crate::engine::inproc::{self, Inproc, ShellCfg};
use crate::engine::pool::{self, Handler, Outcome, PoolCfg};
use serde_json::{Value, json};

pub fn script_worker() -> Handler {
    let mut ip = Inproc::new();
    let cfg = ShellCfg::default();
    let mut last_dirkey: Option<String> = None;
    Box::new(move |case: &[u8]| {
        let v: Value = serde_json::from_slice(case).expect("script case json");
        // "dirkey": cases that only read their directory may share it (no wipe between them)
        let reuse = match (v["dirkey"].as_str(), &last_dirkey) {
            (Some(k), Some(l)) if k == l => true,
            _ => false,
        };
        last_dirkey = v["dirkey"].as_str().map(String::from);
        let dir = if reuse { ip.root.join("w") } else { ip.fresh_dir() };
        if let Some(files) = v["files"].as_object().filter(|_| !reuse) {
            for (name, content) in files {
                let p = dir.join(name);
                if let Some(parent) = p.parent() {
                    let _ = std::fs::create_dir_all(parent);
                }
                if name.ends_with('/') {
                    let _ = std::fs::create_dir_all(&p);
                } else {
                    std::fs::write(&p, content.as_str().unwrap_or("")).expect("write case file");
                }
            }
        }
        let ipr: &Inproc = &ip;
        let out = ipr.rt.block_on(async {
            let mut sh = ipr.build_shell(&dir, &cfg).await;
            if let Some(vars) = v["vars"].as_object() {
                for (k, val) in vars {
                    inproc::set_var(&mut sh, k, val.as_str().unwrap_or(""));
                }
            }
            if let Some(arrs) = v["arrays"].as_object() {
                for (k, val) in arrs {
                    let items: Vec<String> = val.as_array().map(|a| a.iter().map(|x| x.as_str().unwrap_or("").to_string()).collect()).unwrap_or_default();
                    let refs: Vec<&str> = items.iter().map(|s| s.as_str()).collect();
                    inproc::set_array(&mut sh, k, &refs);
                }
            }
            if let Some(pos) = v["pos"].as_array() {
                let p: Vec<String> = pos.iter().map(|x| x.as_str().unwrap_or("").to_string()).collect();
                *sh.current_shell_args_mut() = p;
            }
            let r = match v["mode"].as_str() {
                Some("file") => {
                    let path = dir.join("s.sh");
                    std::fs::write(&path, v["s"].as_str().unwrap_or("")).expect("write script file");
                    // invoked the way bash is (`./s.sh`, relative to the shell's working directory)
                    ipr.run_file_on(&mut sh, std::path::Path::new("./s.sh"), &[]).await
                }
                Some("dash-c") => ipr.run_dash_c_on(&mut sh, v["s"].as_str().unwrap_or("")).await,
                _ => ipr.run_on(&mut sh, v["s"].as_str().unwrap_or("")).await,
            };
            let mut vars = serde_json::Map::new();
            if let Some(get) = v["get"].as_array() {
                for g in get {
                    let name = g.as_str().unwrap_or("");
                    vars.insert(name.to_string(), inproc::get_var(&sh, name).map(Value::String).unwrap_or(Value::Null));
                }
            }
            // "cap": keep at most that many bytes of each stream (sweeps that only look at status / emptiness)
            let cap = v["cap"].as_u64().map(|c| c as usize).unwrap_or(usize::MAX);
            json!({
                "o": String::from_utf8_lossy(&r.stdout[..r.stdout.len().min(cap)]),
                "e": String::from_utf8_lossy(&r.stderr[..r.stderr.len().min(cap)]),
                "st": r.status,
                "flow": r.flow,
                "vars": Value::Object(vars),
            })
        });
        let mut out = out;
        if v["collect"].as_bool().unwrap_or(false) {
            let mut files = serde_json::Map::new();
            collect(&dir, &dir, &mut files);
            out["files"] = Value::Object(files);
        }
        out.to_string().into_bytes()
    })
}

fn collect(root: &std::path::Path, dir: &std::path::Path, out: &mut serde_json::Map<String, Value>) {
    if let Ok(rd) = std::fs::read_dir(dir) {
        let mut entries: Vec<_> = rd.flatten().collect();
        entries.sort_by_key(|e| e.file_name());
        for e in entries {
            let p = e.path();
            let Ok(md) = std::fs::symlink_metadata(&p) else { continue };
            if md.is_dir() {
                collect(root, &p, out);
            } else if md.is_file() {
                let rel = p.strip_prefix(root).unwrap().to_string_lossy().into_owned();
                let c = std::fs::read(&p).unwrap_or_default();
                out.insert(rel, Value::String(String::from_utf8_lossy(&c).into_owned()));
            }
        }
    }
}

#[derive(Clone, Debug)]
pub struct ScriptObs {
    pub out: String,
    pub err: String,
    pub status: i64,
    pub flow: String,
    pub vars: Value,
    pub files: Value,
    /// Some(description) when the run crashed (panic / worker death / timeout)
    pub crash: Option<String>,
}

pub fn decode(o: &Outcome) -> ScriptObs {
    match o {
        Outcome::Ok(b) => {
            let v: Value = serde_json::from_slice(b).unwrap_or(Value::Null);
            ScriptObs {
                out: v["o"].as_str().unwrap_or("").to_string(),
                err: v["e"].as_str().unwrap_or("").to_string(),
                status: v["st"].as_i64().unwrap_or(-1),
                flow: v["flow"].as_str().unwrap_or("").to_string(),
                vars: v["vars"].clone(),
                files: v["files"].clone(),
                crash: None,
            }
        }
        other => ScriptObs { out: String::new(), err: String::new(), status: -1, flow: String::new(), vars: Value::Null, files: Value::Null, crash: Some(other.describe()) },
    }
}

/// Runs scripts in-process on the worker pool.
pub fn run_scripts(cases: &[Value], timeout_ms: u64) -> Vec<ScriptObs> {
    let cfg = PoolCfg::new("script").timeout_ms(timeout_ms);
    let bytes: Vec<Vec<u8>> = cases.iter().map(|c| c.to_string().into_bytes()).collect();
    pool::run(&cfg, &bytes).iter().map(decode).collect()
}

pub fn run_plain_scripts(scripts: &[String], timeout_ms: u64) -> Vec<ScriptObs> {
    let cases: Vec<Value> = scripts.iter().map(|s| json!({"s": s})).collect();
    run_scripts(&cases, timeout_ms)
}

/// Parses a stream of `vargs` records (`<n>\0arg1\0…argn\0\n`) by count, so arguments may contain
/// newlines and the record terminator sequence. Returns None for a malformed stream position.
pub fn parse_vargs_stream(out: &str) -> Vec<Vec<String>> {
    let b = out.as_bytes();
    let mut i = 0;
    let mut recs = vec![];
    while i < b.len() {
        // count
        let Some(z) = b[i..].iter().position(|c| *c == 0) else { break };
        let Ok(n) = std::str::from_utf8(&b[i..i + z]).unwrap_or("x").parse::<usize>() else { break };
        i += z + 1;
        let mut args = Vec::with_capacity(n);
        let mut ok = true;
        for _ in 0..n {
            let Some(z) = b[i..].iter().position(|c| *c == 0) else {
                ok = false;
                break;
            };
            args.push(String::from_utf8_lossy(&b[i..i + z]).into_owned());
            i += z + 1;
        }
        if !ok || i >= b.len() || b[i] != b'\n' {
            break;
        }
        i += 1;
        recs.push(args);
    }
    recs
}
