//! C04 — quoted expansions arrive byte-exact: never re-split, re-globbed or re-parsed.
//! All values over an adversarial alphabet up to a length bound, injected through the API, expanded in
//! every quoting context under every IFS / glob-option configuration in a directory full of names the
//! value could match. Oracle: identity (no bash needed).

use super::common;
use crate::engine::enumerate;
use crate::engine::report::{Failure, Report, Tier};
use serde_json::{Value, json};

pub const SIGMA: &[&str] = &[" ", "\t", "\n", "*", "?", "[", "]", "\\", "'", "\"", "$", "`", "{", ",", "}", "~", ":", "-", "a", "é"];

fn vrec(args: &[&str]) -> String {
    let mut s = format!("{}\0", args.len());
    for a in args {
        s.push_str(a);
        s.push('\0');
    }
    s.push('\n');
    s
}

pub fn value_tags(v: &str) -> Vec<String> {
    let mut t = vec![];
    let mut add = |c: bool, n: &str| {
        if c {
            t.push(format!("sym:{n}"))
        }
    };
    add(v.contains('\n'), "newline");
    add(v.contains(' ') || v.contains('\t'), "blank");
    add(v.contains('*') || v.contains('?') || v.contains('['), "glob");
    add(v.contains('\\'), "backslash");
    add(v.contains('\'') || v.contains('"'), "quote");
    add(v.contains('$') || v.contains('`'), "dollar-backquote");
    add(v.contains('{') || v.contains('}') || v.contains(','), "brace");
    add(v.contains('~'), "tilde");
    add(v.contains(':'), "colon");
    add(v.starts_with('-'), "leading-dash");
    add(!v.is_ascii(), "multibyte");
    add(v.is_empty(), "empty");
    t
}

struct Ctx {
    name: &'static str,
    script: &'static str,
    expect: fn(&str) -> String,
}

fn whitespace_split(v: &str) -> Vec<&str> {
    v.split([' ', '\t', '\n']).filter(|s| !s.is_empty()).collect()
}

fn contexts() -> Vec<Ctx> {
    vec![
        Ctx { name: "\"$x\"", script: "vargs \"$x\"", expect: |v| vrec(&[v]) },
        Ctx { name: "\"${x}\"", script: "vargs \"${x}\"", expect: |v| vrec(&[v]) },
        Ctx { name: "\"${a[@]}\"", script: "vargs \"${a[@]}\"", expect: |v| vrec(&[v, v]) },
        Ctx { name: "\"$@\"", script: "vargs \"$@\"", expect: |v| vrec(&[v, v]) },
        Ctx { name: "\"$(printf %s \"$x\")\"", script: "vargs \"$(printf %s \"$x\")\"", expect: |v| vrec(&[v.trim_end_matches('\n')]) },
        Ctx { name: "y=$x", script: "y=$x; vargs \"$y\"", expect: |v| vrec(&[v]) },
        Ctx { name: "y=\"$x\"", script: "z=\"$x\"; vargs \"$z\"", expect: |v| vrec(&[v]) },
        Ctx { name: "b=(\"$x\")", script: "b=(\"$x\"); vargs \"${b[0]}\" \"${#b[@]}\"", expect: |v| vrec(&[v, "1"]) },
        Ctx { name: "case \"$x\" in \"$x\")", script: "case \"$x\" in \"$x\") echo M;; *) echo N;; esac", expect: |_| "M\n".into() },
        Ctx { name: "<<<\"$x\"", script: "vcat <<<\"$x\"; echo", expect: |v| format!("{v}\n\n") },
        Ctx { name: "[[ \"$x\" == \"$x\" ]]", script: "if [[ \"$x\" == \"$x\" ]]; then echo T; else echo F; fi", expect: |_| "T\n".into() },
        Ctx { name: "[[ -n \"$x\" ]]", script: "if [[ -n \"$x\" ]]; then echo T; else echo F; fi", expect: |v| if v.is_empty() { "F\n".into() } else { "T\n".into() } },
        Ctx { name: "\"${x:-d}\"", script: "vargs \"${x:-d}\" \"${x-d}\" \"${x:+$x}\"", expect: |v| if v.is_empty() { vrec(&["d", "", ""]) } else { vrec(&[v, v, v]) } },
        Ctx { name: "\"pre${x}post\"", script: "vargs \"pre${x}post\" pre\"$x\"post", expect: |v| { let s = format!("pre{v}post"); vrec(&[&s, &s]) } },
        Ctx { name: "for i in \"$x\"", script: "for i in \"$x\"; do vargs \"$i\"; done", expect: |v| vrec(&[v]) },
        Ctx { name: "local/export", script: "f() { local l=\"$x\"; vargs \"$l\"; }; f; export e=\"$x\"; venv e", expect: |v| format!("{}e={v}\n", vrec(&[v])) },
        Ctx { name: "read <<<", script: "IFS= read -r r <<<\"$x\"; vargs \"$r\"", expect: |v| vrec(&[v.split('\n').next().unwrap_or("")]) },
        Ctx { name: "printf %s", script: "printf '%s' \"$x\"; echo", expect: |v| format!("{v}\n") },
        Ctx { name: "echo", script: "echo \"$x\"", expect: |v| if matches!(v, "-n" | "-e" | "-E" | "-ne" | "-en") { String::new() } else { format!("{v}\n") } },
        // "$@" / "${a[@]}" glued to other pieces inside the same quotes: the first element joins what precedes,
        // the last what follows, and no element is ever split or globbed again
        Ctx { name: "\"x$@\"", script: "vargs \"x$@\"", expect: |v| { let f = format!("x{v}"); vrec(&[&f, v]) } },
        Ctx { name: "\"$@y\"", script: "vargs \"$@y\"", expect: |v| { let l = format!("{v}y"); vrec(&[v, &l]) } },
        Ctx { name: "\"x${a[@]}y\"", script: "vargs \"x${a[@]}y\"", expect: |v| { let f = format!("x{v}"); let l = format!("{v}y"); vrec(&[&f, &l]) } },
        Ctx { name: "\"$x${a[@]}\"", script: "vargs \"$x${a[@]}\"", expect: |v| { let f = format!("{v}{v}"); vrec(&[&f, v]) } },
        Ctx { name: "\"${a[@]}${a[@]}\"", script: "vargs \"${a[@]}${a[@]}\"", expect: |v| { let m = format!("{v}{v}"); vrec(&[v, &m, v]) } },
        Ctx { name: "\"x${a[@]:1}\"", script: "vargs \"x${a[@]:1}\" \"${a[@]:0:1}z\"", expect: |v| { let f = format!("x{v}"); let l = format!("{v}z"); vrec(&[&f, &l]) } },
        Ctx { name: "for i in \"x$@\"", script: "for i in \"x$@\"; do vargs \"$i\"; done", expect: |v| { let f = format!("x{v}"); format!("{}{}", vrec(&[&f]), vrec(&[v])) } },
        Ctx { name: "b=(\"x${a[@]}\")", script: "b=(\"x${a[@]}\"); vargs \"${#b[@]}\" \"${b[0]}\" \"${b[1]}\"", expect: |v| { let f = format!("x{v}"); vrec(&["2", &f, v]) } },
        Ctx { name: "unquoted,set -f,IFS=''", script: "set -f; oIFS=$IFS; IFS=; vargs $x; IFS=$oIFS; set +f", expect: |v| if v.is_empty() { vrec(&[]) } else { vrec(&[v]) } },
    ]
}

struct Config {
    name: &'static str,
    prelude: &'static str,
    /// how unquoted `$x` under `set -f` splits (only for the default-IFS configs)
    default_ifs: bool,
}

const CONFIGS: &[Config] = &[
    Config { name: "default", prelude: "", default_ifs: true },
    Config { name: "IFS=''", prelude: "IFS=\n", default_ifs: false },
    Config { name: "IFS=:", prelude: "IFS=:\n", default_ifs: false },
    Config { name: "IFS=,", prelude: "IFS=,\n", default_ifs: false },
    Config { name: "noglob", prelude: "set -f\n", default_ifs: true },
    Config { name: "nullglob", prelude: "shopt -s nullglob\n", default_ifs: true },
    Config { name: "failglob", prelude: "shopt -s failglob\n", default_ifs: true },
    Config { name: "dotglob", prelude: "shopt -s dotglob\n", default_ifs: true },
    Config { name: "extglob", prelude: "shopt -s extglob\n", default_ifs: true },
    Config { name: "nocaseglob+globstar", prelude: "shopt -s nocaseglob globstar\n", default_ifs: true },
];

pub fn run(tier: Tier, _replay: Option<Value>) -> ! {
    let mut rep = Report::new("C04", tier, "exploration");
    let values = enumerate::strings(SIGMA, tier.pick(2, 3));
    let ctxs = contexts();
    // directory: a file for every 1- and 2-symbol value (all are legal names) plus dot-files
    let mut files = serde_json::Map::new();
    for n in enumerate::strings(SIGMA, 2) {
        if !n.is_empty() {
            files.insert(n, Value::String(String::new()));
        }
    }
    files.insert(".hidden".into(), Value::String(String::new()));
    files.insert("ab".into(), Value::String(String::new()));
    let files = Value::Object(files);
    let mut cases: Vec<Value> = vec![];
    let mut meta: Vec<(usize, usize)> = vec![];
    for (vi, _) in values.iter().enumerate() {
        for (ci, cfg) in CONFIGS.iter().enumerate() {
            let mut s = String::from(cfg.prelude);
            s.push_str("a=(\"$x\" \"$x\"); set -- \"$x\" \"$x\"\n");
            for (k, c) in ctxs.iter().enumerate() {
                s.push_str(&format!("echo \"#{k}\"\n{}\n", c.script));
            }
            // unquoted with set -f and default IFS: only whitespace splitting may happen
            if cfg.default_ifs {
                s.push_str("echo \"#U\"\nset -f; vargs $x; set +f\n");
            }
            s.push_str("echo \"#E\"\n");
            cases.push(json!({"s": s, "vars": {"x": values[vi]}, "get": ["y", "z"], "files": files, "dirkey": "c04"}));
            meta.push((vi, ci));
        }
    }
    let obs = common::run_scripts(&cases, 30_000);
    for (i, o) in obs.iter().enumerate() {
        let (vi, ci) = meta[i];
        let v = &values[vi];
        let cfg = &CONFIGS[ci];
        rep.evaluations += (ctxs.len() + 2) as u64;
        let desc = |ctx: &str| format!("x={:?} context={} config={}", v, ctx, cfg.name);
        if let Some(cr) = &o.crash {
            let mut tags = value_tags(v);
            tags.push("crash".into());
            rep.fail(Failure { case: desc("*"), tags, expected: "no crash".into(), observed: cr.clone(), oracle: "no-crash".into() });
            continue;
        }
        rep.observe(&o.out);
        if v.chars().any(|c| !c.is_alphanumeric()) {
            rep.nontrivial.insert(format!("{v}|{}", cfg.name));
        }
        // split output into sections
        let mut sections: std::collections::HashMap<String, String> = std::collections::HashMap::new();
        let mut cur: Option<String> = None;
        let mut buf = String::new();
        for line in o.out.split_inclusive('\n') {
            if line.starts_with('#') && line.len() <= 5 && line.ends_with('\n') && (line[1..line.len() - 1].chars().all(|c| c.is_ascii_digit()) || &line[1..line.len() - 1] == "U" || &line[1..line.len() - 1] == "E") {
                if let Some(c) = cur.take() {
                    sections.insert(c, std::mem::take(&mut buf));
                }
                cur = Some(line[1..line.len() - 1].to_string());
            } else {
                buf.push_str(line);
            }
        }
        let mut check = |key: &str, name: &str, want: String, rep: &mut Report| {
            let got = sections.get(key).cloned().unwrap_or_else(|| "<section missing>".into());
            if got != want {
                let mut tags = value_tags(v);
                tags.push(format!("ctx:{name}"));
                tags.push(format!("cfg:{}", cfg.name));
                rep.fail(Failure { case: desc(name), tags, expected: want.replace('\0', "␀"), observed: got.replace('\0', "␀"), oracle: "identity".into() });
            }
        };
        for (k, c) in ctxs.iter().enumerate() {
            let want = (c.expect)(v);
            // value that looks like a marker line would confuse sectioning: skip those few
            if v.starts_with('#') {
                continue;
            }
            check(&k.to_string(), c.name, want, &mut rep);
        }
        if cfg.default_ifs {
            let parts = whitespace_split(v);
            check("U", "unquoted,set -f,default IFS", vrec(&parts), &mut rep);
        }
        // assigned variables read back through the API
        for (name, ctxname) in [("y", "y=$x (API read-back)"), ("z", "y=\"$x\" (API read-back)")] {
            let got = o.vars[name].as_str().map(String::from);
            if got.as_deref() != Some(v.as_str()) {
                let mut tags = value_tags(v);
                tags.push(format!("ctx:{ctxname}"));
                tags.push(format!("cfg:{}", cfg.name));
                rep.fail(Failure { case: desc(ctxname), tags, expected: v.clone(), observed: format!("{got:?}"), oracle: "identity".into() });
            }
        }
        if i % (obs.len() / 5).max(1) == 0 {
            rep.sample(json!({"x": v, "config": cfg.name, "contexts": ctxs.len() + 1}));
        }
    }
    // literal (unquoted, non-expanded) text is never subject to field splitting, whatever IFS holds
    {
        let probes = [("IFS=a", "banana", "IFS=a; vargs banana \"$x\""), ("IFS=-", "a-b", "IFS=-; vargs a-b \"$x\""), ("IFS=n", "n", "IFS=n; for w in anb; do vargs $w \"$x\"; done")];
        let mut pc = vec![];
        for (_, _, script) in &probes {
            for v in values.iter().take(40) {
                pc.push(json!({"s": script, "vars": {"x": v}}));
            }
        }
        let po = common::run_scripts(&pc, 30_000);
        let mut k = 0;
        for (ifs, lit, _) in &probes {
            for v in values.iter().take(40) {
                rep.evaluations += 1;
                let o = &po[k];
                k += 1;
                let want = if *ifs == "IFS=n" { vrec(&["a", "b", v]) } else { vrec(&[lit, v]) };
                if o.crash.is_some() || o.out != want {
                    let mut tags = value_tags(v);
                    tags.push("ctx:literal-word".into());
                    tags.push(format!("cfg:{ifs}"));
                    rep.fail(Failure { case: format!("x={:?} context=literal word config={ifs}", v), tags, expected: want.replace('\0', "␀"), observed: o.crash.clone().unwrap_or_else(|| o.out.replace('\0', "␀")), oracle: "identity".into() });
                }
            }
        }
    }
    // redirection target (legal file names only), fresh empty directory per case
    let mut rcases = vec![];
    let mut rvals = vec![];
    for v in &values {
        if v.is_empty() || v.contains('/') || v == "." || v == ".." {
            continue;
        }
        rcases.push(json!({"s": "echo hi >\"$x\"; vcat <\"$x\"; echo more >>\"$x\"", "vars": {"x": v}, "collect": true}));
        rvals.push(v.clone());
    }
    let robs = common::run_scripts(&rcases, 30_000);
    for (v, o) in rvals.iter().zip(robs.iter()) {
        rep.evaluations += 1;
        let files: Vec<(String, String)> = o.files.as_object().map(|m| m.iter().map(|(k, v)| (k.clone(), v.as_str().unwrap_or("").to_string())).collect()).unwrap_or_default();
        let want = vec![(v.clone(), "hi\nmore\n".to_string())];
        if o.crash.is_some() || o.out != "hi\n" || files != want {
            let mut tags = value_tags(v);
            tags.push("ctx:redirect-target".into());
            rep.fail(Failure { case: format!("x={:?} context=>\"$x\"", v), tags, expected: format!("stdout hi; files {:?}", want), observed: format!("stdout {:?}; files {:?}; {:?}", o.out, files, o.crash), oracle: "identity".into() });
        }
    }
    rep.rule = format!(
        "all values over the {}-symbol alphabet {:?} with <= {} symbols, injected through the API, in {} contexts under {} configurations (IFS default/empty/:/,; noglob, nullglob, failglob, dotglob, extglob, nocaseglob+globstar), in a directory holding a file for every 1- and 2-symbol value; plus the redirection-target context in an empty directory; non-trivial = value contains a non-alphanumeric character",
        SIGMA.len(),
        SIGMA,
        tier.pick(2, 3),
        ctxs.len() + 3,
        CONFIGS.len()
    );
    rep.assumptions.push("values never contain NUL; `$( )` strips trailing newlines and `read` stops at the first newline (expected values account for that)".into());
    rep.finish()
}
