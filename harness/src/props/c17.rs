//! C17 — `wait` really waits; live jobs carry distinct job numbers.
//! Explicit-state model checking of the REAL job table: breadth-first search over event histories
//! (launch simple/compound/pipeline/function-loop job, finish k, prompt poll, `jobs`, `wait`, `wait %n`,
//! foreground marker); every transition is executed on a real in-process shell rebuilt by replaying the
//! history; job durations are controlled by a gate builtin so every finishing order is enumerated.

use crate::engine::inproc::{self, Inproc, ShellCfg};
use crate::engine::pool::{self, Handler, Outcome, PoolCfg};
use crate::engine::report::{Failure, Report, Tier};
use brush_core::{CommandArg, ExecutionContext, ExecutionResult};
use futures::future::BoxFuture;
use serde_json::{Value, json};
use std::collections::{BTreeSet, HashMap};
use std::sync::{Arc, Mutex};
use tokio::sync::Notify;

type SE = brush_core::extensions::DefaultShellExtensions;

static GATES: Mutex<Option<HashMap<(u64, u32), Arc<Notify>>>> = Mutex::new(None);
static MARKS: Mutex<Vec<String>> = Mutex::new(Vec::new());
/// Replay generation: tasks left over from an earlier replay must not write into the current one.
static GEN: std::sync::atomic::AtomicU64 = std::sync::atomic::AtomicU64::new(0);

fn cur_gen() -> u64 {
    GEN.load(std::sync::atomic::Ordering::SeqCst)
}
fn gate_g(g: u64, k: u32) -> Arc<Notify> {
    let mut m = GATES.lock().unwrap();
    m.get_or_insert_with(HashMap::new).entry((g, k)).or_insert_with(|| Arc::new(Notify::new())).clone()
}
fn gate(k: u32) -> Arc<Notify> {
    gate_g(cur_gen(), k)
}
fn mark_g(g: u64, s: String) {
    if g == cur_gen() {
        MARKS.lock().unwrap().push(s);
    }
}
fn mark(s: String) {
    MARKS.lock().unwrap().push(s);
}
fn marks() -> Vec<String> {
    MARKS.lock().unwrap().clone()
}

fn vgate_exec(_ctx: ExecutionContext<'_, SE>, args: Vec<CommandArg>) -> BoxFuture<'_, Result<ExecutionResult, brush_core::Error>> {
    Box::pin(async move {
        let k: u32 = args.get(1).map(|a| a.to_string()).and_then(|s| s.parse().ok()).unwrap_or(0);
        let g = cur_gen();
        mark_g(g, format!("s{k}"));
        gate_g(g, k).notified().await;
        mark_g(g, format!("m{k}"));
        Ok(ExecutionResult::success())
    })
}
fn vmark_exec(_ctx: ExecutionContext<'_, SE>, args: Vec<CommandArg>) -> BoxFuture<'_, Result<ExecutionResult, brush_core::Error>> {
    Box::pin(async move {
        mark(args.get(1).map(|a| a.to_string()).unwrap_or_default());
        Ok(ExecutionResult::success())
    })
}

async fn wait_for_mark(m: &str, ms: u64) -> bool {
    let deadline = tokio::time::Instant::now() + std::time::Duration::from_millis(ms);
    loop {
        if marks().iter().any(|x| x == m) {
            return true;
        }
        if tokio::time::Instant::now() >= deadline {
            return false;
        }
        tokio::time::sleep(std::time::Duration::from_micros(200)).await;
    }
}

async fn settle() {
    for _ in 0..20 {
        tokio::task::yield_now().await;
    }
    tokio::time::sleep(std::time::Duration::from_millis(3)).await;
    // under CPU load 3 ms of wall clock may not let a woken job task finish: push probe tasks through the
    // runtime's queues behind it and wait for them
    for _ in 0..4 {
        let _ = tokio::spawn(async { tokio::task::yield_now().await }).await;
        tokio::task::yield_now().await;
    }
}

fn table(sh: &inproc::Sh) -> Vec<(usize, String)> {
    sh.jobs().jobs.iter().map(|j| (j.id, format!("{}", j.state))).collect()
}

async fn replay(ip: &Inproc, dir: &std::path::Path, events: &[String]) -> Value {
    // release whatever an earlier replay left blocked, then start a new generation
    if let Some(m) = GATES.lock().unwrap().as_ref() {
        for n in m.values() {
            n.notify_one();
        }
    }
    GEN.fetch_add(1, std::sync::atomic::Ordering::SeqCst);
    *GATES.lock().unwrap() = Some(HashMap::new());
    MARKS.lock().unwrap().clear();
    let cfg = ShellCfg { extra_builtins: vec![("vgate".into(), inproc::reg(vgate_exec)), ("vmark".into(), inproc::reg(vmark_exec))], ..Default::default() };
    let mut sh = ip.build_shell(dir, &cfg).await;
    ip.bind_stdio(&mut sh);
    let params = sh.default_exec_params();
    let src = brush_core::SourceInfo::default();
    let mut violations: Vec<Value> = vec![];
    let mut launched: Vec<u32> = vec![]; // gate ids in launch order
    let mut launched_kinds: Vec<String> = vec![]; // the kind of every launched job (jobs of different kinds have different futures)
    let mut jobno: HashMap<u32, usize> = HashMap::new(); // gate id -> job number given at launch
    let mut released: BTreeSet<u32> = BTreeSet::new();
    let mut fg = 0;
    let mut waits = 0;
    let mut infeasible = false;
    let mut jobs_listing = String::new();
    for ev in events {
        let e = ev.as_str();
        if let Some(kind) = e.strip_prefix('L') {
            let k = launched.len() as u32 + 1;
            let cmd = match kind {
                "s" => format!("vgate {k} &"),
                // the append redirection is set up at launch, the line is written after the gate: lines of
                // jobs that finish in any order must all end up in the shared file
                "c" => format!("{{ vgate {k}; vmark c{k}; echo j{k}; }} >>log &"),
                "p" => format!("vgate {k} | vcat >/dev/null &"),
                // a job that ends in an interpreter error (not a status) after its gate
                "e" => format!("{{ vgate {k}; echo $((1/0)); }} 2>/dev/null &"),
                _ => format!("lf() {{ for i in 1; do vgate {k} & done; }}; lf"),
            };
            let _ = sh.run_string(cmd, &src, &params).await;
            launched.push(k);
            launched_kinds.push(kind.to_string());
            if let Some(j) = sh.jobs().jobs.last() {
                jobno.insert(k, j.id);
            }
            // the job's task must have reached its gate before the next event (deterministic start)
            if !wait_for_mark(&format!("s{k}"), 3000).await {
                infeasible = true;
            }
        } else if let Some(k) = e.strip_prefix('F').and_then(|s| s.parse::<u32>().ok()) {
            gate(k).notify_one();
            released.insert(k);
            if !wait_for_mark(&format!("m{k}"), 3000).await {
                violations.push(json!({"oracle": "job-finishes", "detail": format!("job {k} never emitted its marker after its gate was released")}));
            }
            settle().await;
        } else if e == "P" {
            let _ = sh.check_for_completed_jobs();
        } else if e == "J" {
            let out_before = std::fs::read(ip.root.join("stdout")).map(|b| b.len()).unwrap_or(0);
            let _ = sh.run_string("jobs".to_string(), &src, &params).await;
            let all = std::fs::read(ip.root.join("stdout")).unwrap_or_default();
            jobs_listing = String::from_utf8_lossy(&all[out_before.min(all.len())..]).into_owned();
            // every listed job number is distinct, and every job that has not finished is listed
            let nums: Vec<String> = jobs_listing.lines().filter_map(|l| l.strip_prefix('[').and_then(|r| r.split(']').next()).map(|s| s.to_string())).collect();
            let uniq: BTreeSet<&String> = nums.iter().collect();
            if uniq.len() != nums.len() {
                violations.push(json!({"oracle": "jobs-listing-distinct", "detail": jobs_listing}));
            }
            for k in &launched {
                if !released.contains(k) {
                    let n = jobno.get(k).copied().unwrap_or(0).to_string();
                    if !nums.iter().any(|x| *x == n) {
                        violations.push(json!({"oracle": "jobs-lists-live-jobs", "detail": format!("running job (gate {k}, number {n}) missing from: {jobs_listing}")}));
                    }
                }
            }
        } else if e == "G" {
            fg += 1;
            let _ = sh.run_string(format!("vmark fg{fg}a; vmark fg{fg}b"), &src, &params).await;
        } else if e == "W" || e.starts_with('W') {
            waits += 1;
            let target: Option<u32> = e[1..].parse().ok();
            let cmd = match target {
                None => format!("wait; vmark afterwait{waits}"),
                Some(k) => format!("wait %{}; vmark afterwait{waits}", jobno.get(&k).copied().unwrap_or(0)),
            };
            let must_finish: Vec<u32> = match target {
                None => launched.clone(),
                Some(k) => vec![k],
            };
            let pending: Vec<u32> = must_finish.iter().copied().filter(|k| !released.contains(k)).collect();
            let mut fut = Box::pin(sh.run_string(cmd, &src, &params));
            let mut done = false;
            // the awaited jobs that are still running are released ONE AT A TIME; before each release `wait`
            // must still be blocked (a job that ends early, or ends in an error, must not end the wait)
            let mut remaining = pending.clone();
            while !remaining.is_empty() {
                if tokio::time::timeout(std::time::Duration::from_millis(25), &mut fut).await.is_ok() {
                    done = true;
                    violations.push(json!({"oracle": "wait-returns-after-jobs", "detail": format!("`{}` returned while jobs {:?} had not finished", e, remaining)}));
                    break;
                }
                let k = remaining.remove(0);
                gate(k).notify_one();
                released.insert(k);
                if !wait_for_mark(&format!("m{k}"), 3000).await {
                    violations.push(json!({"oracle": "job-finishes", "detail": format!("job {k} never emitted its marker after its gate was released")}));
                }
                settle().await;
            }
            for k in &remaining {
                gate(*k).notify_one();
                released.insert(*k);
            }
            if !done && tokio::time::timeout(std::time::Duration::from_millis(4000), &mut fut).await.is_err() {
                violations.push(json!({"oracle": "wait-terminates", "detail": format!("`{}` did not return within 4 s after all jobs were released", e)}));
                infeasible = true;
            }
            drop(fut);
            // happens-before: every awaited job's marker precedes the marker printed right after wait
            let m = marks();
            if let Some(aw) = m.iter().position(|x| *x == format!("afterwait{waits}")) {
                for k in &must_finish {
                    match m.iter().position(|x| *x == format!("m{k}")) {
                        Some(p) if p < aw => {}
                        _ => violations.push(json!({"oracle": "wait-returns-after-jobs", "detail": format!("marker of job {k} is not before the command after `{}`: {:?}", e, m)})),
                    }
                }
            }
            // file effects: the line of every awaited compound job is in the shared file, once, when wait returns
            if !infeasible {
                let log = std::fs::read_to_string(dir.join("log")).unwrap_or_default();
                for k in &must_finish {
                    if launched_kinds[(*k - 1) as usize] == "c" {
                        let c = log.lines().filter(|l| *l == format!("j{k}")).count();
                        if c != 1 {
                            violations.push(json!({"oracle": "file-effects-visible-after-wait", "detail": format!("line j{k} occurs {c} times in the shared file after `{}`: {:?}", e, log)}));
                        }
                    }
                }
            }
            settle().await;
        }
        // invariants in every state
        let t = table(&sh);
        let live: Vec<usize> = t.iter().map(|x| x.0).collect();
        let uniq: BTreeSet<usize> = live.iter().copied().collect();
        if uniq.len() != live.len() {
            violations.push(json!({"oracle": "distinct-job-numbers", "detail": format!("job table holds duplicate numbers {:?} after {:?}", live, ev)}));
        }
        let m = marks();
        for k in &launched {
            let c = m.iter().filter(|x| **x == format!("m{k}")).count();
            if c > 1 || (released.contains(k) && c != 1 && !infeasible) {
                violations.push(json!({"oracle": "marker-exactly-once", "detail": format!("job {k}: {c} markers in {:?}", m)}));
            }
        }
        // foreground order
        let fgs: Vec<&String> = m.iter().filter(|x| x.starts_with("fg")).collect();
        let mut sorted = fgs.clone();
        sorted.sort();
        if fgs != sorted {
            violations.push(json!({"oracle": "foreground-order", "detail": format!("{:?}", m)}));
        }
    }
    // release everything so that no task stays blocked
    for k in &launched {
        gate(*k).notify_one();
    }
    // every job has been released: its marker must appear (deterministic end state, independent of load)
    if !infeasible {
        for k in &launched {
            let _ = wait_for_mark(&format!("m{k}"), 3000).await;
        }
    }
    settle().await;
    // every compound job was released and finished: each one's line is in the shared file exactly once
    if !infeasible {
        let want: Vec<String> = launched.iter().filter(|k| launched_kinds[(**k - 1) as usize] == "c").map(|k| format!("j{k}")).collect();
        let mut log = String::new();
        for _ in 0..600 {
            log = std::fs::read_to_string(dir.join("log")).unwrap_or_default();
            if log.lines().count() >= want.len() {
                break;
            }
            tokio::time::sleep(std::time::Duration::from_millis(5)).await;
        }
        let mut got: Vec<String> = log.lines().map(String::from).collect();
        got.sort();
        let mut w = want.clone();
        w.sort();
        if got != w {
            violations.push(json!({"oracle": "file-effects-none-lost", "detail": format!("shared file holds {:?}, expected the lines {:?}", log, want)}));
        }
    }
    let t = table(&sh);
    let m = marks();
    let mset: BTreeSet<&String> = m.iter().filter(|x| x.starts_with('m') || x.starts_with('c')).collect();
    let canon = json!({"table": t, "released": released, "launched": launched.len(), "kinds": launched_kinds, "marks": mset, "fg": fg, "waits": waits.min(1)}).to_string();
    json!({"canon": canon, "violations": violations, "table": t, "marks": m, "infeasible": infeasible, "launched": launched.len(), "released": released, "jobs_listing": jobs_listing})
}

pub fn worker() -> Handler {
    let mut ip = Inproc::new();
    Box::new(move |case: &[u8]| {
        let v: Value = serde_json::from_slice(case).unwrap();
        let events: Vec<String> = v["events"].as_array().unwrap().iter().map(|x| x.as_str().unwrap().to_string()).collect();
        let dir = ip.fresh_dir();
        let ipr: &Inproc = &ip;
        let out = ipr.rt.block_on(replay(ipr, &dir, &events));
        out.to_string().into_bytes()
    })
}

fn enabled(info: &Value, max_jobs: usize, kinds: &[&str]) -> Vec<String> {
    let launched = info["launched"].as_u64().unwrap_or(0) as usize;
    let released: Vec<u64> = info["released"].as_array().map(|a| a.iter().filter_map(|x| x.as_u64()).collect()).unwrap_or_default();
    let mut ev = vec![];
    if launched < max_jobs {
        for k in kinds {
            ev.push(format!("L{k}"));
        }
    }
    for k in 1..=launched as u64 {
        if !released.contains(&k) {
            ev.push(format!("F{k}"));
        }
    }
    ev.push("P".into());
    ev.push("J".into());
    if launched > 0 {
        ev.push("W".into());
        for k in 1..=launched as u64 {
            if !released.contains(&k) {
                ev.push(format!("W{k}"));
            }
        }
    }
    if info["marks"].as_array().map(|m| !m.iter().any(|x| x.as_str().is_some_and(|s| s.starts_with("fg")))).unwrap_or(true) {
        ev.push("G".into());
    }
    ev
}

pub fn run(tier: Tier, replay_file: Option<Value>) -> ! {
    let mut rep = Report::new("C17", tier, "model_checking");
    let cfg = PoolCfg::new("c17").timeout_ms(30_000);
    if let Some(r) = replay_file {
        rep.replay_mode = true;
        let events: Vec<String> = r["case"].as_str().unwrap_or("").split(", ").map(|s| s.to_string()).collect();
        let outs = pool::run(&cfg, &[json!({"events": events}).to_string().into_bytes()]);
        if let Outcome::Ok(b) = &outs[0] {
            let v: Value = serde_json::from_slice(b).unwrap();
            for viol in v["violations"].as_array().cloned().unwrap_or_default() {
                rep.fail(Failure { case: events.join(", "), tags: vec![], expected: "invariant holds".into(), observed: viol["detail"].as_str().unwrap_or("").to_string(), oracle: viol["oracle"].as_str().unwrap_or("").to_string() });
            }
        }
        rep.finish();
    }
    let depth = tier.pick(6, 7);
    let max_jobs = tier.pick(3, 3);
    let kinds: Vec<&str> = match tier {
        Tier::Quick => vec!["c", "e"],
        Tier::Thorough => vec!["s", "c", "f", "e"], // (a pipeline job with an external stage finishes when the kernel says so: not replayable; pipelines are C11's subject)
    };
    let mut seen: BTreeSet<String> = BTreeSet::new();
    let mut frontier: Vec<(Vec<String>, Value)> = vec![(vec![], json!({"launched": 0, "released": [], "marks": []}))];
    let mut states = 1u64;
    let mut transitions = 0u64;
    let mut replays_checked = 0u64;
    let mut failures_seen: BTreeSet<String> = BTreeSet::new();
    let mut nondeterministic: Vec<Vec<String>> = vec![];
    for d in 0..depth {
        let mut cases: Vec<Vec<String>> = vec![];
        for (h, info) in &frontier {
            for e in enabled(info, max_jobs, &kinds) {
                let mut h2 = h.clone();
                h2.push(e);
                cases.push(h2);
            }
        }
        let bytes: Vec<Vec<u8>> = cases.iter().map(|c| json!({"events": c}).to_string().into_bytes()).collect();
        let outs = pool::run(&cfg, &bytes);
        transitions += cases.len() as u64;
        let mut next = vec![];
        for (h, o) in cases.iter().zip(outs.iter()) {
            rep.evaluations += 1;
            match o {
                Outcome::Ok(b) => {
                    let v: Value = serde_json::from_slice(b).unwrap_or(Value::Null);
                    for viol in v["violations"].as_array().cloned().unwrap_or_default() {
                        let oracle = viol["oracle"].as_str().unwrap_or("").to_string();
                        let key = format!("{oracle}|{}", h.join(","));
                        if failures_seen.insert(key) {
                            let mut tags: Vec<String> = h.iter().map(|e| format!("ev:{}", e.chars().next().unwrap_or('?'))).collect();
                            tags.sort();
                            tags.dedup();
                            if h.iter().any(|e| e == "Lp") {
                                tags.push("kind:pipeline".into());
                            }
                            rep.fail(Failure { case: h.join(", "), tags, expected: "invariant holds".into(), observed: viol["detail"].as_str().unwrap_or("").to_string(), oracle });
                        }
                    }
                    let canon = v["canon"].as_str().unwrap_or("").to_string();
                    rep.observe(&canon);
                    if seen.insert(canon) {
                        states += 1;
                        // a state whose history already violates an invariant is not expanded further
                        if v["violations"].as_array().map(|a| a.is_empty()).unwrap_or(true) && v["infeasible"].as_bool() != Some(true) {
                            next.push((h.clone(), v.clone()));
                        }
                        if rep.samples.len() < 6 && h.len() >= 4 {
                            rep.sample(json!({"events": h, "table": v["table"], "marks": v["marks"]}));
                        }
                    }
                }
                other => {
                    rep.fail(Failure { case: h.join(", "), tags: vec!["crash".into()], expected: "replay completes".into(), observed: other.describe(), oracle: "no-crash".into() });
                }
            }
        }
        // determinism of replay: re-run a slice of this level and require identical canonical states
        let recheck: Vec<&Vec<String>> = cases.iter().step_by((cases.len() / 40).max(1)).collect();
        let rb: Vec<Vec<u8>> = recheck.iter().map(|c| json!({"events": c}).to_string().into_bytes()).collect();
        let ro = pool::run(&cfg, &rb);
        for (h, o) in recheck.iter().zip(ro.iter()) {
            if let Outcome::Ok(b) = o {
                let v: Value = serde_json::from_slice(b).unwrap_or(Value::Null);
                replays_checked += 1;
                if !seen.contains(v["canon"].as_str().unwrap_or("")) {
                    nondeterministic.push((*h).clone());
                }
            }
        }
        if !nondeterministic.is_empty() {
            // A history that does not replay to the same state: either the harness does not own some choice
            // (machinery failure) or the shell's `wait`/reaping depends on timing, which is what the property
            // forbids. Replay each such history 6 more times and evaluate the invariants on every replay.
            let rb: Vec<Vec<u8>> = nondeterministic.iter().flat_map(|c| (0..6).map(move |_| json!({"events": c}).to_string().into_bytes())).collect();
            let ro = pool::run(&cfg, &rb);
            for (k, o) in ro.iter().enumerate() {
                let h = &nondeterministic[k / 6];
                if let Outcome::Ok(b) = o {
                    let v: Value = serde_json::from_slice(b).unwrap_or(Value::Null);
                    for viol in v["violations"].as_array().cloned().unwrap_or_default() {
                        let oracle = viol["oracle"].as_str().unwrap_or("").to_string();
                        if failures_seen.insert(format!("{oracle}|{}", h.join(","))) {
                            rep.fail(Failure { case: h.join(", "), tags: vec!["timing-dependent-replay".into()], expected: "invariant holds".into(), observed: viol["detail"].as_str().unwrap_or("").to_string(), oracle });
                        }
                    }
                }
            }
            if rep.failures.is_empty() {
                crate::engine::report::machinery_fail(&format!("replay of {:?} is not deterministic and no replay violates an invariant", nondeterministic[0]));
            }
            rep.cap(&format!("search stopped at depth {}: {} histories replay differently from run to run (violations reported)", d + 1, nondeterministic.len()));
            break;
        }
        eprintln!("  [C17] depth {} : {} transitions, {} new states", d + 1, cases.len(), next.len());
        frontier = next;
        if frontier.is_empty() {
            break;
        }
    }
    // ---- line atomicity of the builtin that jobs print with: concurrent jobs (and the foreground) share
    //      descriptors, so a line written by `echo` must reach the descriptor in ONE write(2), or lines of
    //      different jobs can interleave inside a line. Observed with strace on the real binary (skipped,
    //      and said so, where ptrace is not available).
    {
        let progs: &[(&str, &str, usize)] = &[
            ("plain", "echo hello world", 1),
            ("no-newline", "echo -n nonl", 1),
            ("in-function", "f() { echo in-func; }; f", 1),
            ("in-loop", "for i in 1 2 3; do echo \"loop $i\"; done", 3),
            ("background-jobs", "{ echo job1; } & { echo job2; } & wait", 2),
            ("job-from-function-in-loop", "lf() { for i in 1 2; do echo \"j$i\" & done; }; lf; wait", 2),
            ("to-file", "echo filed >out.txt; echo filed2 >>out.txt", 2),
            ("escapes", "echo -e 'a\\tb'", 1),
        ];
        // (absolute path: the traced shell gets a PATH with the helper directory only)
        let strace_bin = ["/usr/bin/strace", "/bin/strace", "/usr/local/bin/strace"].iter().find(|p| std::path::Path::new(p).exists()).copied().unwrap_or("strace");
        let strace_ok = std::process::Command::new(strace_bin).arg("-V").output().map(|o| o.status.success()).unwrap_or(false);
        if !strace_ok {
            rep.assumptions.push("strace is not available here: the one-write-per-echo-line observation was skipped".into());
        } else {
            let brush = crate::engine::procs::brush_path();
            for (name, prog, echos) in progs {
                let dir = crate::engine::procs::scratch_root().join("c17strace");
                let _ = std::fs::remove_dir_all(&dir);
                let _ = std::fs::create_dir_all(&dir);
                let trace = dir.join("trace.txt");
                let out = std::process::Command::new(strace_bin)
                    .args(["-f", "-e", "trace=write", "-s", "200", "-o"])
                    .arg(&trace)
                    .arg(&brush)
                    .args(["--norc", "--noprofile", "-c", prog])
                    .current_dir(&dir)
                    .env_clear()
                    .env("PATH", crate::engine::procs::helper_dir())
                    .env("LC_ALL", "C.utf8")
                    .stdout(std::process::Stdio::null())
                    .stderr(std::process::Stdio::null())
                    .output();
                rep.evaluations += 1;
                let Ok(o) = out else {
                    rep.assumptions.push("strace could not be started: the one-write-per-echo-line observation was skipped".into());
                    break;
                };
                let t = std::fs::read_to_string(&trace).unwrap_or_default();
                if !o.status.success() && t.is_empty() {
                    rep.assumptions.push("strace could not trace the shell here (ptrace denied): the one-write-per-echo-line observation was skipped".into());
                    break;
                }
                // writes whose data is (part of) what the echos print: fd is whatever the shell uses
                let writes: Vec<&str> = t.lines().filter(|l| l.contains(" write(") && !l.contains("write(2,")).filter(|l| ["hello", "nonl", "in-func", "loop ", "job", "\"j", "filed", "a\\tb", "\"\\n\""].iter().any(|k| l.contains(k))).collect();
                rep.nontrivial.insert(format!("atomic-echo:{name}"));
                if writes.len() != *echos {
                    rep.fail(Failure { case: format!("write(2) calls made for: {prog}"), tags: vec!["echo-line-atomicity".into(), format!("prog:{name}")], expected: format!("{echos} write(2) call(s), one per echo"), observed: format!("{} calls: {}", writes.len(), writes.iter().map(|l| l.split_once("write(").map(|x| x.1).unwrap_or(l)).collect::<Vec<_>>().join(" ; ")), oracle: "one-write-per-line".into() });
                }
            }
        }
    }
    rep.nontrivial_extra = states;
    rep.set("states", states);
    rep.set("transitions", transitions);
    rep.set("traces_validated_against_impl", transitions);
    rep.set("replays_rechecked_for_determinism", replays_checked);
    rep.set("max_depth", depth as u64);
    rep.set("max_jobs", max_jobs as u64);
    rep.rule = format!(
        "breadth-first search over event histories of depth <= {depth} with <= {max_jobs} jobs; events: launch ({}), finish k (gate release), prompt poll (check_for_completed_jobs), `jobs`, `wait`, `wait %n`, foreground marker; each history is replayed on a fresh real shell; states are merged by (job table, released set, markers); invariants are evaluated after every event",
        kinds.join("/")
    );
    rep.assumptions.push("job durations are controlled by the gate builtin; orders below job granularity (inside one builtin) are not explored".into());
    rep.finish()
}
