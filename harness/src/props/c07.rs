//! C07 — arithmetic evaluates as bash's wrapping 64-bit C-style integer arithmetic.
//! All expression trees up to a depth bound over the full operator set; text rendered from the tree by
//! the *reference* C precedence table; oracles: a reference evaluator over the tree (validated against
//! bash on every run) and bash itself.

use super::common::{self, ScriptObs};
use crate::engine::bash;
use crate::engine::report::{Failure, Report, Tier};
use serde_json::{Value, json};
use std::collections::BTreeMap;

#[derive(Clone, Debug, PartialEq)]
pub enum E {
    /// literal: text as written, value after bash's wrap-around parsing
    Lit(&'static str, i64),
    Var(&'static str),
    Un(&'static str, Box<E>),
    Bin(&'static str, Box<E>, Box<E>),
    PreInc(&'static str, &'static str),  // op, var
    PostInc(&'static str, &'static str), // op, var
    Assign(&'static str, &'static str, Box<E>),
    Tern(Box<E>, Box<E>, Box<E>),
}

pub const BIN_OPS: &[&str] = &["**", "*", "/", "%", "+", "-", "<<", ">>", "<", "<=", ">", ">=", "==", "!=", "&", "^", "|", "&&", "||", ","];
pub const UN_OPS: &[&str] = &["-", "+", "!", "~"];
pub const ASSIGN_OPS: &[&str] = &["=", "*=", "/=", "%=", "+=", "-=", "<<=", ">>=", "&=", "^=", "|="];

fn prec(op: &str) -> u8 {
    match op {
        "," => 1,
        "||" => 4,
        "&&" => 5,
        "|" => 6,
        "^" => 7,
        "&" => 8,
        "==" | "!=" => 9,
        "<" | "<=" | ">" | ">=" => 10,
        "<<" | ">>" => 11,
        "+" | "-" => 12,
        "*" | "/" | "%" => 13,
        "**" => 14,
        _ => 0,
    }
}
const PREC_ASSIGN: u8 = 2;
const PREC_TERN: u8 = 3;
const PREC_UNARY: u8 = 15;
const PREC_ATOM: u8 = 17;

fn eprec(e: &E) -> u8 {
    match e {
        E::Lit(..) | E::Var(_) => PREC_ATOM,
        E::Un(..) | E::PreInc(..) => PREC_UNARY,
        E::PostInc(..) => 16,
        E::Bin(op, ..) => prec(op),
        E::Assign(..) => PREC_ASSIGN,
        E::Tern(..) => PREC_TERN,
    }
}

/// Token list; parenthesised minimally by C precedence/associativity (`full` = parenthesise everything).
pub fn tokens(e: &E, full: bool, out: &mut Vec<String>) {
    let paren = |x: &E, need: bool, out: &mut Vec<String>| {
        let atom = matches!(x, E::Lit(..) | E::Var(_));
        if (need || (full && !atom)) && !atom {
            out.push("(".into());
            tokens(x, full, out);
            out.push(")".into());
        } else {
            tokens(x, full, out);
        }
    };
    match e {
        E::Lit(t, _) => out.push(t.to_string()),
        E::Var(n) => out.push(n.to_string()),
        E::Un(op, x) => {
            out.push(op.to_string());
            paren(x, eprec(x) < PREC_UNARY, out);
        }
        E::PreInc(op, v) => {
            out.push(op.to_string());
            out.push(v.to_string());
        }
        E::PostInc(op, v) => {
            out.push(v.to_string());
            out.push(op.to_string());
        }
        E::Bin(op, l, r) => {
            let p = prec(op);
            let right_assoc = *op == "**";
            let (lneed, rneed) = if right_assoc { (eprec(l) <= p, eprec(r) < p) } else { (eprec(l) < p, eprec(r) <= p) };
            // unary minus binds tighter than ** in bash: (-2)**2 is written -2**2; that is what eprec gives
            paren(l, lneed, out);
            out.push(op.to_string());
            paren(r, rneed, out);
        }
        E::Assign(op, v, x) => {
            out.push(v.to_string());
            out.push(op.to_string());
            paren(x, eprec(x) < PREC_ASSIGN, out);
        }
        E::Tern(c, a, b) => {
            paren(c, eprec(c) <= PREC_TERN, out);
            out.push("?".into());
            // the middle operand is delimited by ? and : — anything but a comma may stand bare
            paren(a, eprec(a) < PREC_ASSIGN, out);
            out.push(":".into());
            paren(b, eprec(b) < PREC_TERN, out);
        }
    }
}

const OP_TOKENS: &[&str] = &[
    "**", "*", "/", "%", "+", "-", "<<", ">>", "<", "<=", ">", ">=", "==", "!=", "&", "^", "|", "&&", "||", ",", "!", "~", "++", "--", "=", "*=", "/=", "%=", "+=", "-=",
    "<<=", ">>=", "&=", "^=", "|=", "?", ":", "(", ")", "**=",
];

fn needs_space(a: &str, b: &str) -> bool {
    let ident = |s: &str| s.chars().all(|c| c.is_alphanumeric() || c == '_' || c == '#' || c == '@');
    if ident(a) && ident(b) {
        return true;
    }
    if ident(a) || ident(b) {
        return false;
    }
    // would the concatenation start a longer operator token?
    let cat = format!("{a}{b}");
    for n in (a.len() + 1)..=cat.len() {
        if OP_TOKENS.contains(&&cat[..n]) {
            return true;
        }
    }
    // + followed by + etc. (prefix of ++): `a + +b`
    (a.ends_with('+') && b.starts_with('+')) || (a.ends_with('-') && b.starts_with('-'))
}

pub fn render(e: &E, full: bool, blanks: bool) -> String {
    let mut t = vec![];
    tokens(e, full, &mut t);
    let mut s = String::new();
    for (i, tok) in t.iter().enumerate() {
        if i > 0 && (blanks || needs_space(&t[i - 1], tok)) {
            s.push(' ');
        }
        s.push_str(tok);
    }
    s
}

// ------------------------------------------------------------------------------------------------
// reference evaluator

#[derive(Clone, Debug)]
pub struct Env {
    /// variable -> (text, tree of the text) ; absent = unset
    pub vars: BTreeMap<&'static str, (String, Option<E>)>,
}

#[derive(Debug, Clone, PartialEq)]
pub enum EvalErr {
    DivZero,
    NegExp,
    Recursion,
}

fn wrapping_pow(mut base: i64, mut exp: i64) -> i64 {
    let mut r: i64 = 1;
    while exp > 0 {
        if exp & 1 == 1 {
            r = r.wrapping_mul(base);
        }
        base = base.wrapping_mul(base);
        exp >>= 1;
    }
    r
}

fn apply(op: &str, l: i64, r: i64) -> Result<i64, EvalErr> {
    Ok(match op {
        "**" => {
            if r < 0 {
                return Err(EvalErr::NegExp);
            }
            wrapping_pow(l, r)
        }
        "*" => l.wrapping_mul(r),
        "/" => {
            if r == 0 {
                return Err(EvalErr::DivZero);
            }
            l.wrapping_div(r)
        }
        "%" => {
            if r == 0 {
                return Err(EvalErr::DivZero);
            }
            l.wrapping_rem(r)
        }
        "+" => l.wrapping_add(r),
        "-" => l.wrapping_sub(r),
        "<<" => l.wrapping_shl(r as u32),
        ">>" => l.wrapping_shr(r as u32),
        "<" => (l < r) as i64,
        "<=" => (l <= r) as i64,
        ">" => (l > r) as i64,
        ">=" => (l >= r) as i64,
        "==" => (l == r) as i64,
        "!=" => (l != r) as i64,
        "&" => l & r,
        "^" => l ^ r,
        "|" => l | r,
        _ => unreachable!("op {op}"),
    })
}

impl Env {
    fn get(&mut self, name: &'static str, depth: u32) -> Result<i64, EvalErr> {
        if depth > 64 {
            return Err(EvalErr::Recursion);
        }
        match self.vars.get(name).cloned() {
            None => Ok(0),
            Some((_, None)) => Ok(0),
            Some((_, Some(tree))) => self.eval(&tree, depth + 1),
        }
    }
    fn set(&mut self, name: &'static str, v: i64) {
        self.vars.insert(name, (v.to_string(), Some(E::Lit("", v))));
    }
    pub fn eval(&mut self, e: &E, depth: u32) -> Result<i64, EvalErr> {
        Ok(match e {
            E::Lit(_, v) => *v,
            E::Var(n) => self.get(n, depth)?,
            E::Un(op, x) => {
                let v = self.eval(x, depth)?;
                match *op {
                    "-" => v.wrapping_neg(),
                    "+" => v,
                    "!" => (v == 0) as i64,
                    "~" => !v,
                    _ => unreachable!(),
                }
            }
            E::PreInc(op, n) => {
                let v = self.get(n, depth)?;
                let nv = if *op == "++" { v.wrapping_add(1) } else { v.wrapping_sub(1) };
                self.set(n, nv);
                nv
            }
            E::PostInc(op, n) => {
                let v = self.get(n, depth)?;
                let nv = if *op == "++" { v.wrapping_add(1) } else { v.wrapping_sub(1) };
                self.set(n, nv);
                v
            }
            E::Bin(op, l, r) => match *op {
                "&&" => {
                    if self.eval(l, depth)? == 0 {
                        0
                    } else {
                        (self.eval(r, depth)? != 0) as i64
                    }
                }
                "||" => {
                    if self.eval(l, depth)? != 0 {
                        1
                    } else {
                        (self.eval(r, depth)? != 0) as i64
                    }
                }
                "," => {
                    self.eval(l, depth)?;
                    self.eval(r, depth)?
                }
                _ => {
                    let a = self.eval(l, depth)?;
                    let b = self.eval(r, depth)?;
                    apply(op, a, b)?
                }
            },
            E::Assign(op, n, x) => {
                let nv = if *op == "=" {
                    self.eval(x, depth)?
                } else {
                    // C order as bash implements it: the target's current value is read first, then the
                    // right-hand side is evaluated (x=5; x += x++ gives 10)
                    let cur = self.get(n, depth)?;
                    let rhs = self.eval(x, depth)?;
                    apply(&op[..op.len() - 1], cur, rhs)?
                };
                self.set(n, nv);
                nv
            }
            E::Tern(c, a, b) => {
                if self.eval(c, depth)? != 0 {
                    self.eval(a, depth)?
                } else {
                    self.eval(b, depth)?
                }
            }
        })
    }
}

pub fn base_env() -> Env {
    let mut vars: BTreeMap<&'static str, (String, Option<E>)> = BTreeMap::new();
    vars.insert("x", ("5".into(), Some(E::Lit("5", 5))));
    vars.insert("y", ("3".into(), Some(E::Lit("3", 3))));
    vars.insert("e", ("".into(), None));
    vars.insert("n", ("x".into(), Some(E::Var("x"))));
    vars.insert("z", ("x+1".into(), Some(E::Bin("+", Box::new(E::Var("x")), Box::new(E::Lit("1", 1))))));
    // values that are numbers in another notation: the value of a variable is evaluated as an expression
    vars.insert("o", ("010".into(), Some(E::Lit("010", 8))));
    vars.insert("h", ("0x1F".into(), Some(E::Lit("0x1F", 31))));
    vars.insert("w", (" 7 ".into(), Some(E::Lit("7", 7))));
    vars.insert("q", ("2#101".into(), Some(E::Lit("2#101", 5))));
    // u stays unset
    Env { vars }
}

pub const SETUP: &str = "x=5; y=3; e=; unset u; n=x; z=x+1; o=010; h=0x1F; w=' 7 '; q=2#101; ";
pub const DUMP: &str = "echo \"v=$x|$y|$e|${u-U}|$n|$z|$o|$h|$w|$q\"";

pub fn model_dump(env: &Env) -> String {
    let g = |n: &str| env.vars.get(n).map(|v| v.0.clone());
    format!(
        "v={}|{}|{}|{}|{}|{}|{}|{}|{}|{}",
        g("x").unwrap_or_default(),
        g("y").unwrap_or_default(),
        g("e").unwrap_or_default(),
        g("u").unwrap_or_else(|| "U".into()),
        g("n").unwrap_or_default(),
        g("z").unwrap_or_default(),
        g("o").unwrap_or_default(),
        g("h").unwrap_or_default(),
        g("w").unwrap_or_default(),
        g("q").unwrap_or_default()
    )
}

pub fn operands(n: usize) -> Vec<E> {
    let all = vec![
        E::Lit("0", 0),
        E::Lit("1", 1),
        E::Var("x"),
        E::Lit("2", 2),
        E::Un("-", Box::new(E::Lit("1", 1))),
        E::Var("u"),
        E::Lit("3", 3),
        E::Lit("7", 7),
        E::Var("z"),
        E::Var("n"),
        E::Lit("9223372036854775807", i64::MAX),
        E::Un("-", Box::new(E::Lit("9223372036854775808", i64::MIN))),
        E::Lit("2147483648", 1 << 31),
        E::Lit("0x7fffffffffffffff", i64::MAX),
        E::Lit("0x8000000000000000", i64::MIN),
        E::Lit("017", 15),
        E::Lit("16#ff", 255),
        E::Lit("64#@_", 4031),
        E::Var("e"),
        E::Var("o"),
        E::Var("h"),
        E::Var("w"),
        E::Var("q"),
        E::Var("y"),
        E::Lit("2#101", 5),
        E::Lit("36#Z", 35),
        E::Lit("63", 63),
        E::Lit("64", 64),
    ];
    all.into_iter().take(n).collect()
}

const INC_VARS: &[&str] = &["x", "u", "n", "o"];

/// All trees of depth <= 1 over `ops`.
pub fn depth1(ops: &[E]) -> Vec<E> {
    let mut out: Vec<E> = ops.to_vec();
    for op in BIN_OPS {
        for l in ops {
            for r in ops {
                out.push(E::Bin(op, Box::new(l.clone()), Box::new(r.clone())));
            }
        }
    }
    for op in UN_OPS {
        for x in ops {
            out.push(E::Un(op, Box::new(x.clone())));
        }
    }
    for op in ["++", "--"] {
        for v in INC_VARS {
            out.push(E::PreInc(op, v));
            out.push(E::PostInc(op, v));
        }
    }
    for op in ASSIGN_OPS {
        for v in INC_VARS {
            for x in ops {
                out.push(E::Assign(op, v, Box::new(x.clone())));
            }
        }
    }
    for c in ops.iter().take(6) {
        for a in ops.iter().take(6) {
            for b in ops.iter().take(6) {
                out.push(E::Tern(Box::new(c.clone()), Box::new(a.clone()), Box::new(b.clone())));
            }
        }
    }
    out
}

/// Depth-2 trees: an outer operator with one (or both) operand(s) replaced by a depth-1 tree.
pub fn depth2(leaf: &[E], both: bool) -> Vec<E> {
    // inner nodes: every operator kind once per operand pair
    let mut inner: Vec<E> = vec![];
    for op in BIN_OPS {
        for l in leaf.iter().take(3) {
            for r in leaf.iter().take(3) {
                inner.push(E::Bin(op, Box::new(l.clone()), Box::new(r.clone())));
            }
        }
    }
    for op in UN_OPS {
        for x in leaf.iter().take(3) {
            inner.push(E::Un(op, Box::new(x.clone())));
        }
    }
    for op in ["++", "--"] {
        inner.push(E::PreInc(op, "x"));
        inner.push(E::PostInc(op, "x"));
    }
    for op in ASSIGN_OPS {
        inner.push(E::Assign(op, "x", Box::new(leaf[3 % leaf.len()].clone())));
    }
    inner.push(E::Tern(Box::new(leaf[0].clone()), Box::new(leaf[1].clone()), Box::new(leaf[2].clone())));
    inner.push(E::Tern(Box::new(leaf[1].clone()), Box::new(leaf[2].clone()), Box::new(leaf[3 % leaf.len()].clone())));
    let mut out = vec![];
    for op in BIN_OPS {
        for i in &inner {
            for l in leaf {
                out.push(E::Bin(op, Box::new(i.clone()), Box::new(l.clone())));
                out.push(E::Bin(op, Box::new(l.clone()), Box::new(i.clone())));
            }
        }
        if both {
            for i in inner.iter().step_by(3) {
                for j in inner.iter().step_by(5) {
                    out.push(E::Bin(op, Box::new(i.clone()), Box::new(j.clone())));
                }
            }
        }
    }
    for op in UN_OPS {
        for i in &inner {
            out.push(E::Un(op, Box::new(i.clone())));
        }
    }
    for op in ASSIGN_OPS {
        for i in &inner {
            out.push(E::Assign(op, "x", Box::new(i.clone())));
            out.push(E::Assign(op, "u", Box::new(i.clone())));
        }
    }
    for i in &inner {
        for l in leaf.iter().take(3) {
            out.push(E::Tern(Box::new(i.clone()), Box::new(l.clone()), Box::new(leaf[0].clone())));
            out.push(E::Tern(Box::new(l.clone()), Box::new(i.clone()), Box::new(leaf[0].clone())));
            out.push(E::Tern(Box::new(l.clone()), Box::new(leaf[0].clone()), Box::new(i.clone())));
        }
    }
    out
}

fn tags_of(e: &E, tags: &mut Vec<String>) {
    let mut add = |t: String| {
        if !tags.contains(&t) {
            tags.push(t)
        }
    };
    match e {
        E::Lit(t, v) => {
            if *v == i64::MIN {
                add("lit:wraps".into())
            }
            if t.contains('#') {
                add("lit:base#".into())
            } else if t.starts_with("0x") {
                add("lit:hex".into())
            } else if t.len() > 1 && t.starts_with('0') {
                add("lit:octal".into())
            }
        }
        E::Var(n) => add(format!("var:{n}")),
        E::Un(op, x) => {
            add(format!("un:{op}"));
            tags_of(x, tags)
        }
        E::Bin(op, l, r) => {
            add(format!("bin:{op}"));
            tags_of(l, tags);
            tags_of(r, tags)
        }
        E::PreInc(op, _) => add(format!("pre:{op}")),
        E::PostInc(op, _) => add(format!("post:{op}")),
        E::Assign(op, _, x) => {
            add(format!("assign:{op}"));
            tags_of(x, tags)
        }
        E::Tern(c, a, b) => {
            add("ternary".into());
            tags_of(c, tags);
            tags_of(a, tags);
            tags_of(b, tags)
        }
    }
}

fn expected(e: &E) -> String {
    let mut env = base_env();
    match env.eval(e, 0) {
        Ok(v) => format!("r={v}\n{}\n", model_dump(&env)),
        // an expansion error abandons the rest of the command line in bash; side effects up to the error are
        // compared in the (( )) and let contexts, where the shell continues
        Err(_) => "ERR\n".to_string(),
    }
}

/// Normalises a shell's output into the same shape: "r=<v>\n v=...\n" or "ERR\n v=...\n".
fn shape(out: &str) -> String {
    if out.contains("r=") || out.contains("s=") {
        out.to_string()
    } else {
        "ERR\n".to_string()
    }
}

pub fn run(tier: Tier, _replay: Option<Value>) -> ! {
    let mut rep = Report::new("C07", tier, "exploration");
    // ---- the enumerated set
    let ops_wide = operands(tier.pick(23, 28));
    let mut trees = depth1(&ops_wide);
    let leaf = operands(tier.pick(5, 8));
    trees.extend(depth2(&leaf, tier == Tier::Thorough));
    // each tree in three renderings; context $(( ))
    struct Case {
        text: String,
        script: String,
        expect: String,
        tags: Vec<String>,
        ctx: &'static str,
    }
    let mut cases: Vec<Case> = vec![];
    let mut seen = std::collections::HashSet::new();
    for t in &trees {
        let exp = expected(t);
        let mut tags = vec![];
        tags_of(t, &mut tags);
        for (full, blanks) in [(false, true), (false, false), (true, false)] {
            let text = render(t, full, blanks);
            if !seen.insert(text.clone()) {
                continue;
            }
            cases.push(Case { script: format!("{SETUP}echo \"r=$(( {text} ))\"; {DUMP}"), text, expect: exp.clone(), tags: tags.clone(), ctx: "$(( ))" });
        }
    }
    // other contexts, on the minimal rendering of depth-1 trees over a narrower operand set
    let ctx_trees = depth1(&operands(tier.pick(6, 10)));
    for t in &ctx_trees {
        let text = render(t, false, true);
        let mut tags = vec![];
        tags_of(t, &mut tags);
        let mut env = base_env();
        let r = env.eval(t, 0);
        let dump = model_dump(&env);
        let val = r.clone().ok();
        // (( )) status
        let exp = match &val {
            Some(v) => format!("s={}\n{dump}\n", if *v != 0 { 0 } else { 1 }),
            None => format!("s=1\n{dump}\n"),
        };
        let mut t2 = tags.clone();
        t2.push("ctx:((".into());
        cases.push(Case { script: format!("{SETUP}(( {text} )); echo \"s=$?\"; {DUMP}"), text: text.clone(), expect: exp.clone(), tags: t2, ctx: "(( ))" });
        // let
        let mut t2 = tags.clone();
        t2.push("ctx:let".into());
        cases.push(Case { script: format!("{SETUP}let {}; echo \"s=$?\"; {DUMP}", bash::sq(&text)), text: text.clone(), expect: exp, tags: t2, ctx: "let" });
        // array subscript: a[E] with E evaluated; use a 4-element array and fold the index
        if let Some(v) = val {
            if (0..4).contains(&v) {
                let mut t2 = tags.clone();
                t2.push("ctx:subscript".into());
                cases.push(Case {
                    script: format!("{SETUP}a=(p q r s); echo \"r=${{a[{text}]}}\"; {DUMP}"),
                    text: text.clone(),
                    expect: format!("r={}\n{dump}\n", ["p", "q", "r", "s"][v as usize]),
                    tags: t2,
                    ctx: "a[E]",
                });
                let mut t2 = tags.clone();
                t2.push("ctx:substring".into());
                if !text.starts_with('-') && !text.contains('?') && !text.contains(':') {
                    cases.push(Case {
                        script: format!("{SETUP}s=pqrs; echo \"r=${{s:{text}}}\"; {DUMP}"),
                        text: text.clone(),
                        expect: format!("r={}\n{dump}\n", &"pqrs"[v as usize..]),
                        tags: t2,
                        ctx: "${s:E}",
                    });
                }
            }
            let mut t2 = tags.clone();
            t2.push("ctx:declare-i".into());
            cases.push(Case {
                script: format!("{SETUP}declare -i d; d={}; echo \"r=$d\"; {DUMP}", bash::sq(&text)),
                text: text.clone(),
                expect: format!("r={v}\n{dump}\n"),
                tags: t2,
                ctx: "declare -i",
            });
        }
    }
    // ---- brush (in-process)
    let scripts: Vec<String> = cases.iter().map(|c| c.script.clone()).collect();
    let brush: Vec<ScriptObs> = common::run_plain_scripts(&scripts, 20_000);
    // ---- bash on the quick subset (everything at quick; at thorough the depth-1 + contexts part)
    let bash_n = if tier == Tier::Quick { cases.len() } else { cases.len().min(400_000) };
    let bash_recs = bash::batch_eval("", &scripts[..bash_n], &[], 2000);
    let mut model_vs_bash_ok = 0u64;
    let mut model_vs_bash_bad: Vec<(usize, String)> = vec![];
    for i in 0..cases.len() {
        let c = &cases[i];
        rep.evaluations += 1;
        let b = &brush[i];
        let got = if let Some(cr) = &b.crash { format!("CRASH {cr}") } else { shape(&b.out) };
        rep.observe(&got);
        rep.nontrivial.insert(c.text.clone());
        if i < 3 || i == cases.len() / 2 {
            rep.sample(json!({"expr": c.text, "context": c.ctx, "model": c.expect, "brush": got}));
        }
        let mut bash_out: Option<String> = None;
        if i < bash_n {
            if let Some(r) = &bash_recs[i] {
                let s = shape(&String::from_utf8_lossy(&r.stdout));
                if s == c.expect {
                    model_vs_bash_ok += 1;
                } else {
                    model_vs_bash_bad.push((i, s.clone()));
                }
                bash_out = Some(s);
            }
        }
        // brush must be an error exactly when the model says error; values must agree
        let expect = bash_out.clone().unwrap_or_else(|| c.expect.clone());
        if got != expect {
            let mut tags = c.tags.clone();
            if got.starts_with("CRASH") {
                tags.push("crash".into());
            }
            rep.fail(Failure {
                case: format!("{} [{}]", c.text, c.ctx),
                tags,
                expected: expect,
                observed: got,
                oracle: if bash_out.is_some() { "bash".into() } else { "reference-evaluator".into() },
            });
        }
    }
    // model/bash disagreement means the *model* (or renderer) is wrong: that is a machinery matter, but
    // brush has already been compared with bash for those cases, so only report it.
    rep.set("model_vs_bash_agree", model_vs_bash_ok);
    rep.set("model_vs_bash_disagree", model_vs_bash_bad.len() as u64);
    rep.set("traces_validated_against_impl", model_vs_bash_ok);
    rep.set(
        "model_vs_bash_disagree_examples",
        model_vs_bash_bad.iter().take(10).map(|(i, s)| json!({"expr": cases[*i].text, "ctx": cases[*i].ctx, "model": cases[*i].expect, "bash": s})).collect::<Vec<_>>(),
    );
    if model_vs_bash_bad.len() as f64 > 0.01 * bash_n as f64 {
        for (i, s) in model_vs_bash_bad.iter().take(10) {
            eprintln!("model/bash disagree: {} [{}]: model={:?} bash={:?}", cases[*i].text, cases[*i].ctx, cases[*i].expect, s);
        }
        crate::engine::report::machinery_fail("reference evaluator disagrees with bash on more than 1% of the set");
    }
    // ---- malformed expressions and lexing quirks: error-ness must equal bash's, never a crash
    let malformed = [
        "", "1 +", "+", "1 1", "(1", "1 ? 2", "1 : 2", "08", "1 = 2", "x ++ ++", "2 ** -1", "1 / 0", "1 % 0", "0x", "--1", "++1", "1--1", "1++1", "'1'+1", "\"1\"+1",
        "1 +* 2", "1 & & 2", "7 ? : 3", "x = ", "5 ++", "$", "1.5", "1e3", "65#1", "1#1", "2#2", "9223372036854775808", "99999999999999999999",
        "x+++1", "x---1", "- - 1", "~ ~ 1", "! ! 1", "1 <<", ">> 1", "1 ,", ", 1", "(( 1 ))", "()", "1 () 2",
    ];
    let mscripts: Vec<String> = malformed.iter().map(|m| format!("{SETUP}echo \"r=$(( {m} ))\"; {DUMP}")).collect();
    let mb = common::run_plain_scripts(&mscripts, 20_000);
    let mr = bash::batch_eval("", &mscripts, &[], 200);
    for (i, m) in malformed.iter().enumerate() {
        rep.evaluations += 1;
        let got = if let Some(cr) = &mb[i].crash { format!("CRASH {cr}") } else { shape(&mb[i].out) };
        let want = mr[i].as_ref().map(|r| shape(&String::from_utf8_lossy(&r.stdout))).unwrap_or_else(|| "ERR\n".into());
        rep.nontrivial.insert(format!("malformed:{m}"));
        if got != want {
            rep.fail(Failure { case: format!("{m} [$(( )) malformed/lexing]"), tags: vec!["malformed".into(), format!("text:{m}")], expected: want, observed: got, oracle: "bash".into() });
        }
    }
    // ---- two expressions in one expansion: ${s:OFF:LEN} and ${a[@]:OFF:LEN} evaluate OFF, then LEN; every
    //      pair over operands with and without side effects on x
    {
        let exprs = ["x", "x++", "++x", "x--", "y", "x=2", "x+=1", "1", "n", "x*2", "y-x", "0"];
        let mut scripts = vec![];
        let mut descs = vec![];
        for e1 in exprs {
            for e2 in exprs {
                for (fname, form) in [("scalar", "${s:E1:E2}"), ("array", "${a[@]:E1:E2}"), ("positional", "${@:E1:E2}"), ("element-subscripts", "${a[E1]}${a[E2]}")] {
                    let f = form.replace("E1", e1).replace("E2", e2);
                    scripts.push(format!("s=abcdefghijkl; a=(a b c d e f g h i j k l); set -- p q r s t u v w; x=1; y=3; n=x\necho \"r=<{f}>\"; echo \"v=$x|$y\""));
                    descs.push((format!("{f} with x=1 y=3 n=x"), fname));
                }
            }
        }
        let sb = common::run_plain_scripts(&scripts, 20_000);
        let sr = bash::batch_eval("", &scripts, &[], 300);
        for (i, (d, fname)) in descs.iter().enumerate() {
            rep.evaluations += 1;
            rep.nontrivial.insert(format!("subpair:{d}"));
            let got = match &sb[i].crash {
                Some(c) => format!("CRASH {c}"),
                None => sb[i].out.clone(),
            };
            let want = sr[i].as_ref().map(|r| String::from_utf8_lossy(&r.stdout).into_owned()).unwrap_or_else(|| "<no record>".into());
            // an expansion error abandons the command in both shells: only the shape is compared then
            // ($0, reached by ${@:0:n}, is the script's name in one shell and the shell's in the other)
            let norm = |o: &str| if o.contains("r=<") { o.replace("r=<./s.sh", "r=<ARG0").replace("r=<brush", "r=<ARG0").replace("r=<bash", "r=<ARG0") } else { "ERR\n".to_string() };
            if norm(&got) != norm(&want) {
                rep.fail(Failure { case: d.clone(), tags: vec!["two-expressions".into(), format!("form:{fname}")], expected: want, observed: got, oracle: "bash".into() });
            }
        }
        rep.set("two_expression_cases", descs.len() as u64);
    }
    // ---- expressions that differ only in white space but tokenise differently (`x++ +y` / `x+ ++y`,
    //      `1 2` / `12`, `x< =1` / `x<=1`): evaluated one after the other in ONE shell, in both orders, so
    //      that anything keyed on a normalised form of the text (a parse cache) is caught confusing them
    {
        let mut texts: Vec<String> = vec![];
        for (alpha, len) in [(&["x", "y", "+", "-", " ", "1"][..], tier.pick(6, 7)), (&["x", "1", "<", "=", "!", "&", " ", "*", ">"][..], tier.pick(5, 6))] {
            for t in crate::engine::enumerate::strings(alpha, len) {
                if t.is_empty() || t.starts_with(' ') || t.ends_with(' ') || t.contains("  ") || !t.contains(' ') && false {
                    continue;
                }
                texts.push(t);
            }
        }
        texts.sort();
        texts.dedup();
        let one = |e: &str| format!("x=5; y=3; echo \"r=$(( {e} ))\"; echo \"v=$x|$y\"");
        let survey: Vec<String> = texts.iter().map(|t| one(t)).collect();
        let sv = bash::batch_eval("", &survey, &[], 400);
        let norm = |out: &str| -> String {
            let r = out.lines().find(|l| l.starts_with("r=")).unwrap_or("ERR");
            let v = out.lines().find(|l| l.starts_with("v=")).unwrap_or("v=?");
            format!("{r} {v}")
        };
        let mut groups: BTreeMap<String, BTreeMap<String, String>> = BTreeMap::new(); // key -> outcome -> shortest text
        for (t, r) in texts.iter().zip(sv.iter()) {
            let Some(r) = r else { continue };
            let o = norm(&String::from_utf8_lossy(&r.stdout));
            let key: String = t.chars().filter(|c| *c != ' ').collect();
            let e = groups.entry(key).or_default().entry(o).or_insert_with(|| t.clone());
            if t.len() < e.len() {
                *e = t.clone();
            }
        }
        let mut pairs: Vec<(String, String, String)> = vec![]; // (E1, E2, expected)
        for (_, outs) in &groups {
            if outs.len() < 2 {
                continue;
            }
            for (o1, e1) in outs {
                if o1.starts_with("ERR") {
                    continue; // only a successful parse can be remembered
                }
                for (o2, e2) in outs {
                    if e1 != e2 {
                        pairs.push((e1.clone(), e2.clone(), format!("{o1}\n{o2}")));
                    }
                }
            }
        }
        // (each half in a subshell: names such as x1 or xy that an expression creates must not reach the other half)
        let pscripts: Vec<String> = pairs.iter().map(|(a, b, _)| format!("( {} )\necho =====\n( {} )", one(a), one(b))).collect();
        let pb = common::run_plain_scripts(&pscripts, 20_000);
        // every text of a pair also on its own, to tell a lexing difference from an order-dependent one
        let mut singles: Vec<String> = pairs.iter().flat_map(|(a, b, _)| [a.clone(), b.clone()]).collect();
        singles.sort();
        singles.dedup();
        let sb = common::run_plain_scripts(&singles.iter().map(|t| format!("( {} )", one(t))).collect::<Vec<_>>(), 20_000);
        let single_of: BTreeMap<&String, String> = singles.iter().zip(sb.iter()).map(|(t, o)| (t, o.crash.clone().map(|c| format!("CRASH {c}")).unwrap_or_else(|| norm(&o.out)))).collect();
        for (i, (a, b, want)) in pairs.iter().enumerate() {
            rep.evaluations += 1;
            rep.nontrivial.insert(format!("pair:{a}|{b}"));
            let got = match &pb[i].crash {
                Some(c) => format!("CRASH {c}"),
                None => {
                    let (h1, h2) = pb[i].out.split_once("=====\n").unwrap_or((&pb[i].out, ""));
                    format!("{}\n{}", norm(h1), norm(h2))
                }
            };
            if got != *want {
                // alone, does each text give what it gives inside the pair?
                let alone = format!("{}\n{}", single_of.get(a).cloned().unwrap_or_default(), single_of.get(b).cloned().unwrap_or_default());
                let mut tags = vec!["confusable-pair".to_string(), if alone == got { "same-when-alone".into() } else { "order-dependent".into() }];
                for t in [a, b] {
                    if t.contains("++") || t.contains("--") {
                        tags.push("text:inc-dec-run".into());
                        break;
                    }
                }
                if got.starts_with("CRASH") {
                    tags.push("crash".into());
                }
                rep.fail(Failure { case: format!("$(( {a} )) then $(( {b} )) in one shell"), tags, expected: want.clone(), observed: got, oracle: "bash".into() });
            }
        }
        rep.set("whitespace_confusable_texts", texts.len() as u64);
        rep.set("whitespace_confusable_pairs", pairs.len() as u64);
    }
    rep.rule = format!(
        "all expression trees of depth <= 1 over 20 binary, 4 unary, 4 increment, 11 assignment operators, ?: and {} operands, plus depth-2 trees over {} operands; each rendered from the tree with minimal parentheses (C table), fully parenthesised, and without blanks; contexts $(( )), (( )), let, a[E], ${{s:E}}, declare -i; a case is non-trivial/distinct by its expression text",
        ops_wide.len(),
        leaf.len()
    );
    rep.set("trees", trees.len() as u64);
    rep.set("bash_compared", bash_n as u64);
    rep.assumptions.push("bash 5.2.15 is the oracle for the quick set; the reference evaluator (validated against bash on this run) for the rest".into());
    rep.finish()
}
