//! C03 — errexit, nounset and pipefail stop the shell exactly where bash does.
//! Control-flow grammar with failing leaves at every position x exemption-relevant wrappers x option
//! combinations, toggles of `set +e/-e` inside functions and subshells, and every expansion operator on
//! unset targets under `set -u`; markers + exit status compared with bash.

use super::cfgrammar::{self as g, S};
use super::common;
use crate::engine::bash;
use crate::engine::report::{Failure, Report, Tier};
use serde_json::{Value, json};

const WRAPPERS: &[(&str, &str, &str)] = &[
    ("plain", "", ""),
    ("assign-cmdsub", "x=$(", "\n)\necho \"x=$x\""),
    ("arg-cmdsub", "echo \"[$(", "\n)]\""),
    ("eval", "eval '", "\n'"),
    ("pipe-first", "{ ", "\n} | vcat"),
    ("pipe-last", ": | { ", "\n}"),
    ("func-local-cmdsub", "w() { local y=$(", "\n)\necho \"y=$y\"; }\nw"),
    ("cond-of-if", "if ", "; then ok 90; fi"),
    ("and-left", "", " && ok 91"),
    ("negated-group", "! { ", "\n}"),
    // a pipeline (stages run in their own shells) INSIDE an exempt position
    ("pipe-first-in-cond", "if { ", "\n} | vcat; then ok 90; fi"),
    ("pipe-last-in-cond", "if : | { ", "\n}; then ok 90; fi"),
    ("pipe-first-in-and-left", "{ ", "\n} | vcat && ok 91"),
    ("pipe-first-negated", "! { ", "\n} | vcat"),
    ("func-stage-in-cond", "ps() { ", "\n}; if ps | vcat; then ok 90; fi"),
    ("subshell-stage-in-while-cond", "while ( ", "\n) | vcat; do ok 92; break; done"),
];

const OPTSETS: &[(&str, &str)] = &[
    ("e", "set -e\n"),
    ("e+pipefail", "set -e -o pipefail\n"),
    ("e+inherit_errexit", "set -e; shopt -s inherit_errexit\n"),
    ("e+errtrace+ERR", "set -eE; trap 'echo ERR' ERR\n"),
    ("pipefail", "set -o pipefail\n"),
    ("ERR", "trap 'echo ERR' ERR\n"),
    ("e+ERR", "set -e; trap 'echo ERR' ERR\n"),
    ("inherit_errexit-only", "shopt -s inherit_errexit\n"),
    ("inherit_errexit-after-set+e", "set -e; shopt -s inherit_errexit; set +e\n"),
    ("e+pipefail+inherit_errexit", "set -e -o pipefail; shopt -s inherit_errexit\n"),
];

fn leaves_basic() -> Vec<S> {
    vec![S::Leaf(0), S::Leaf(1)]
}

fn wrap(p: &S, w: usize) -> String {
    let mut r = g::Render::new(false);
    r.paren_case = WRAPPERS[w].0.contains("cmdsub");
    let body = r.stmt(p);
    let mut s = String::new();
    for f in &r.funcs {
        s.push_str(f);
        s.push('\n');
    }
    let (name, open, close) = WRAPPERS[w];
    let body = if name == "eval" { body.replace('\'', "'\\''") } else { body };
    // `and-left`/`cond-of-if` need a single command
    let body = if matches!(name, "and-left" | "cond-of-if") && matches!(p, S::Seq(..) | S::And(..) | S::Or(..)) { format!("{{ {body}\n}}") } else { body };
    s.push_str(open);
    s.push_str(&body);
    s.push_str(close);
    s.push_str("\necho \"end=$?\"\n");
    s
}

pub fn run(tier: Tier, replay: Option<Value>) -> ! {
    let mut rep = Report::new("C03", tier, "exploration");
    struct Case {
        script: String,
        tags: Vec<String>,
    }
    let mut cases: Vec<Case> = vec![];
    if let Some(r) = &replay {
        rep.replay_mode = true;
        cases.push(Case { script: r["case"].as_str().unwrap_or("").to_string(), tags: vec![] });
    } else {
        let progs = g::up_to(tier.pick(4, 5), &leaves_basic());
        let optsets: Vec<usize> = (0..OPTSETS.len()).collect();
        for p in &progs {
            // only programs with at least one failing leaf matter
            let mut t = vec![];
            g::tags(p, &mut t);
            if !t.iter().any(|x| x == "leaf:ko") {
                continue;
            }
            for w in 0..WRAPPERS.len() {
                // the heavier wrappers are applied to programs of size <= bound-1 at the quick tier
                if tier == Tier::Quick && w >= 7 && g::size(p) > 3 {
                    continue;
                }
                let body = wrap(p, w);
                for &o in &optsets {
                    if tier == Tier::Quick && g::size(p) > 3 && o >= 4 {
                        continue;
                    }
                    let mut tags = t.clone();
                    tags.push(format!("wrap:{}", WRAPPERS[w].0));
                    tags.push(format!("opts:{}", OPTSETS[o].0));
                    cases.push(Case { script: format!("{}{}{}", g::PRELUDE, OPTSETS[o].1, body), tags });
                }
            }
        }
        // the KIND of failing command: the programs above fail through a function (`ko n`); here every `ko`
        // leaf is replaced by a command that fails directly — builtin, external, assignment whose command
        // substitution fails (the status comes from the substitution), subshell, (( )), [[ ]] — with no command
        // between it and whatever failed before it in an exempt position
        const KO_KINDS: &[(&str, &str)] = &[
            ("builtin", "false"),
            ("external", "vfalse"),
            ("assign-cmdsub", "x=$(false)"),
            ("assign-cmdsub-exit", "x=$(exit 1)"),
            ("subshell", "(exit 1)"),
            ("arith", "((0))"),
            ("cond", "[[ a == b ]]"),
            ("local-assign-cmdsub", "kl"),
        ];
        for p in progs.iter().filter(|p| g::size(p) <= tier.pick(3, 4)) {
            let mut t = vec![];
            g::tags(p, &mut t);
            if !t.iter().any(|x| x == "leaf:ko") {
                continue;
            }
            for w in 0..WRAPPERS.len() {
                if tier == Tier::Quick && w >= 7 {
                    continue;
                }
                let body = wrap(p, w);
                for (kn, ktext) in KO_KINDS {
                    // replace every `ko <n>` (a rendered failing leaf) by the direct failing command
                    let mut out = String::new();
                    let mut rest = body.as_str();
                    while let Some(pos) = rest.find("ko ") {
                        let boundary = pos == 0 || !rest.as_bytes()[pos - 1].is_ascii_alphanumeric();
                        let digits = rest[pos + 3..].chars().take_while(|c| c.is_ascii_digit()).count();
                        if boundary && digits > 0 {
                            out.push_str(&rest[..pos]);
                            out.push_str(ktext);
                            rest = &rest[pos + 3 + digits..];
                        } else {
                            out.push_str(&rest[..pos + 3]);
                            rest = &rest[pos + 3..];
                        }
                    }
                    out.push_str(rest);
                    for o in [0usize, 5, 6] {
                        if o >= OPTSETS.len() {
                            continue;
                        }
                        let mut tags = t.clone();
                        tags.push(format!("wrap:{}", WRAPPERS[w].0));
                        tags.push(format!("opts:{}", OPTSETS[o].0));
                        tags.push(format!("ko-kind:{kn}"));
                        cases.push(Case { script: format!("{}kl() {{ local y=$(false); }}\n{}{}", g::PRELUDE, OPTSETS[o].1, out), tags });
                    }
                }
            }
        }
        // and-or chains of 3 and 4 operands: every assignment of {ok, ko} to the operands x every choice of
        // && / || between them (skipped operands in the middle included), in every wrapper, under the
        // errexit / ERR-trap option sets: only the LAST operand of the chain is subject to errexit
        for n in 3..=4usize {
            for leaves in 0..(1u32 << n) {
                for ops in 0..(1u32 << (n - 1)) {
                    let mut text = String::new();
                    for k in 0..n {
                        if k > 0 {
                            text.push_str(if ops >> (k - 1) & 1 == 1 { " && " } else { " || " });
                        }
                        text.push_str(&format!("{} {}", if leaves >> k & 1 == 1 { "ko" } else { "ok" }, k + 1));
                    }
                    for w in [0usize, 1, 2, 4, 5] {
                        if w >= WRAPPERS.len() {
                            continue;
                        }
                        let (name, open, close) = WRAPPERS[w];
                        let body = if name == "eval" { text.replace('\'', "'\\''") } else { text.clone() };
                        let body = if matches!(name, "and-left" | "cond-of-if") { format!("{{ {body}\n}}") } else { body };
                        for o in [0usize, 5, 6] {
                            let tags = vec!["andor-chain".to_string(), format!("operands:{n}"), format!("wrap:{name}"), format!("opts:{}", OPTSETS[o].0)];
                            cases.push(Case { script: format!("{}{}{open}{body}{close}\necho \"end=$?\"\n", g::PRELUDE, OPTSETS[o].1), tags });
                        }
                    }
                }
            }
        }
        // toggles inside functions and subshells
        let toggles = vec![S::Leaf(0), S::Leaf(1), S::Ctl("set +e", None), S::Ctl("set -e", None)];
        for p in g::up_to(3, &toggles) {
            let mut t = vec![];
            g::tags(&p, &mut t);
            if !t.iter().any(|x| x.starts_with("ctl:set")) || !t.iter().any(|x| x == "leaf:ko") {
                continue;
            }
            for w in [0usize, 1, 4, 5] {
                let mut tags = t.clone();
                tags.push(format!("wrap:{}", WRAPPERS[w].0));
                tags.push("toggle".into());
                cases.push(Case { script: format!("{}set -e\n{}", g::PRELUDE, wrap(&p, w)), tags: tags.clone() });
                tags.push("after-ko".into());
                cases.push(Case { script: format!("{}set -e\n{}ko 99\nok 98\n", g::PRELUDE, wrap(&p, w)), tags });
            }
        }
        // errexit switched ON by the command itself: the shell starts without -e, the unit (function call,
        // eval) turns it on and ends with some status; what the caller does next depends on the option as it
        // is when the unit has finished
        let toggles_r = vec![S::Leaf(0), S::Leaf(1), S::Ctl("set +e", None), S::Ctl("set -e", None), S::Ctl("return", Some(3))];
        for p in g::up_to(3, &toggles_r) {
            let mut t = vec![];
            g::tags(&p, &mut t);
            if !t.iter().any(|x| x == "ctl:set -e") {
                continue;
            }
            let has_return = t.iter().any(|x| x.starts_with("ctl:return"));
            let mut r = g::Render::new(false);
            let body = r.stmt(&p);
            let funcs: String = r.funcs.iter().map(|f| format!("{f}\n")).collect();
            for unit in ["func", "eval", "func-in-func"] {
                if has_return && unit == "eval" {
                    continue;
                }
                let call = match unit {
                    "func" => format!("tf() {{ {body}\n}}\ntf"),
                    "func-in-func" => format!("tf() {{ {body}\n}}\ntg() {{ tf; ok 96; }}\ntg"),
                    _ => format!("eval '{}'", body.replace('\'', "'\\''")),
                };
                let mut tags = t.clone();
                tags.push("toggle".into());
                tags.push("start-off".into());
                tags.push(format!("unit:{unit}"));
                cases.push(Case { script: format!("{}{funcs}{call}\nok 97\nko 99\nok 98\n", g::PRELUDE), tags });
            }
        }
        // nounset: every expansion operator on every kind of unset target
        let targets: &[(&str, &str, &str)] = &[
            ("unset-scalar", "unset v", "v"),
            ("unset-positional", "set --", "1"),
            ("empty-array", "v=()", "v[@]"),
            ("empty-array-star", "v=()", "v[*]"),
            ("array-hole", "v=([0]=a [2]=c)", "v[1]"),
            ("empty-array-elem0", "v=()", "v[0]"),
            ("unset-array-at", "unset v", "v[@]"),
            ("null-scalar", "v=", "v"),
            ("positional-at", "set --", "@"),
            ("positional-star", "set --", "*"),
            ("unset-assoc-elem", "declare -A v", "v[k]"),
        ];
        let forms: &[&str] = &[
            "${T}", "\"${T}\"", "${#T}", "${T:-d}", "${T-d}", "${T:=d}", "${T:+d}", "${T+d}", "${T:?m}", "${T?m}", "${T:0}", "${T:0:1}", "${T#p}", "${T##p}", "${T%p}", "${T%%p}", "${T/a/b}", "${T//a/b}",
            "${T^}", "${T^^}", "${T,}", "${T,,}", "${T@Q}", "${T@U}", "${T@a}", "${T@A}", "${T@E}", "${T@P}", "${!T}", "$(( T ))", "$(( T + 1 ))", "$((T++))",
        ];
        for (tn, setup, t) in targets {
            for f in forms {
                if (f.contains(":=") || f.contains("${!T}") && t.contains('[')) && (t.contains('@') || t.contains('*') || *t == "1") {
                    continue;
                }
                let name_only = t.split('[').next().unwrap_or(t);
                let exp = if f.starts_with("$((") { f.replace('T', if t.chars().all(|c| c.is_alphanumeric()) && !t.chars().all(|c| c.is_ascii_digit()) { t } else { name_only }) } else { f.replace('T', t) };
                if f.starts_with("$((") && (*t == "1" || *t == "@" || *t == "*") {
                    continue;
                }
                for q in ["echo", "x="] {
                    let line = if q == "echo" { format!("echo A:{exp}:") } else { format!("x={exp}; echo \"x=$x\"") };
                    let script = format!("{setup}\nset -u\n{line}\necho \"after=$?\"\n");
                    cases.push(Case { script, tags: vec!["nounset".into(), format!("target:{tn}"), format!("form:{f}")] });
                }
            }
        }
        // $!, $-, $_ and friends under -u
        for sp in ["$!", "$?", "$-", "$$", "$#", "$0", "$_", "${10}", "${#}", "${#@}", "${#*}", "${!}", "$BASH_VERSION", "$RANDOM", "${FUNCNAME[0]}", "${BASH_SOURCE[0]}", "${PIPESTATUS[0]}", "$OPTARG", "$REPLY"] {
            cases.push(Case { script: format!("set -u\necho A:{sp}: >/dev/null\necho \"after=$?\"\n"), tags: vec!["nounset".into(), format!("special:{sp}")] });
        }
    }
    let scripts: Vec<String> = cases.iter().map(|c| c.script.clone()).collect();
    let jcases: Vec<Value> = scripts.iter().map(|s| json!({"s": s, "mode": "file"})).collect();
    let brush = common::run_scripts(&jcases, 20_000);
    let bashr = bash::run_files(bash::BASH, &scripts, 20_000);
    for i in 0..cases.len() {
        rep.evaluations += 1;
        let o = &bashr[i];
        if o.timed_out {
            rep.add("bash_timeouts_skipped", 1);
            continue;
        }
        let b = &brush[i];
        let diag = |nonempty: bool| if nonempty { "diag" } else { "quiet" };
        let is_nounset = cases[i].tags.iter().any(|t| t == "nounset");
        let want = if is_nounset { format!("{}status={} {}", o.out_str(), o.status, diag(!o.stderr.is_empty())) } else { format!("{}status={}", o.out_str(), o.status) };
        let got = match &b.crash {
            Some(c) => format!("CRASH {c}"),
            None => {
                if is_nounset {
                    format!("{}status={} {}", b.out, b.status, diag(!b.err.is_empty()))
                } else {
                    format!("{}status={}", b.out, b.status)
                }
            }
        };
        rep.observe(&got);
        let body = scripts[i].strip_prefix(g::PRELUDE).unwrap_or(&scripts[i]).to_string();
        if !want.contains("end=0") {
            rep.nontrivial.insert(body.clone());
        }
        if i % (cases.len() / 6).max(1) == 0 {
            rep.sample(json!({"script": body, "bash": want}));
        }
        if got != want {
            let mut tags = cases[i].tags.clone();
            if b.crash.is_some() {
                tags.push("crash".into());
            }
            // classify the kind of divergence
            let exited_early = |s: &str| !s.contains("end=") && !s.contains("after=");
            if !is_nounset {
                if exited_early(&got) && !exited_early(&want) {
                    tags.push("brush-exits-bash-continues".into());
                } else if !exited_early(&got) && exited_early(&want) {
                    tags.push("brush-continues-bash-exits".into());
                } else if got.matches("ERR").count() != want.matches("ERR").count() {
                    tags.push("err-trap-count".into());
                } else {
                    tags.push("other-divergence".into());
                }
            } else if o.status == 127 && b.status == 1 && got.replace("status=1 ", "status=127 ") == want {
                tags.push("status-1-vs-127".into());
            }
            rep.fail(Failure { case: scripts[i].clone(), tags, expected: want, observed: got, oracle: "bash".into() });
        }
    }
    rep.rule = format!(
        "all programs with <= {} nodes over leaves {{ok, ko}} containing a failing leaf, wrapped in {} exemption-relevant contexts ({}), under {} option sets ({}); all programs with <= 3 nodes over {{ok, ko, set +e, set -e}} (toggles) in 4 contexts; all programs with <= 3 nodes over {{ok, ko, set +e, set -e, return 3}} containing `set -e`, run as a function / nested function / eval unit in a shell that starts WITHOUT errexit, followed by ok, ko, ok; {} nounset probes (expansion forms x unset-target kinds x word/assignment position); run as script files; non-trivial = bash does not reach end=0",
        tier.pick(4, 5),
        WRAPPERS.len(),
        WRAPPERS.iter().map(|w| w.0).collect::<Vec<_>>().join(", "),
        OPTSETS.len(),
        OPTSETS.iter().map(|w| w.0).collect::<Vec<_>>().join(", "),
        cases.iter().filter(|c| c.tags.iter().any(|t| t == "nounset")).count()
    );
    rep.assumptions.push("bash 5.2.15 is the oracle; script-file mode on both sides".into());
    rep.finish()
}
