//! C15 — a program means the same however it is delivered and whatever was parsed before.
//! (a) programs x delivery modes {script file, -c, source, eval, stdin}; (b) every line-prefix of every
//! program fed on standard input (a command runs as soon as, and only when, it is complete);
//! (c) cache transparency: (text, option-set) sequences evaluated in one long-lived process must give
//! the results a pristine process gives.

use super::cfgrammar::{self as g, S};
use super::common;
use crate::engine::pool::{self, Handler, Outcome, PoolCfg};
use crate::engine::report::{Failure, Report, Tier};
use crate::engine::{bash, procs};
use serde_json::{Value, json};

/// Multi-line feature programs (beyond the grammar): continuations, comments, here-documents, LINENO,
/// and leaves that consume the lines following them when the script is standard input.
pub const PROGRAMS: &[(&str, &str)] = &[
    ("lineno", "echo $LINENO\necho $LINENO\n\necho $LINENO\n"),
    ("lineno-in-func", "f() {\necho $LINENO\n}\nf\necho $LINENO\n"),
    ("lineno-multiline-cmd", "echo a \\\n b $LINENO\necho $LINENO\n"),
    ("lineno-in-loop", "for i in 1 2; do\necho $i $LINENO\ndone\n"),
    ("continuation", "echo a \\\nb\n"),
    ("continuation-in-word", "echo a\\\nb\n"),
    ("continuation-in-dq", "echo \"a\\\nb\"\n"),
    ("comment-lines", "# c1\necho a # c2\n# c3\necho b\n"),
    ("blank-lines", "\n\necho a\n\n\necho b\n\n"),
    ("if-multiline", "if true\nthen\necho y\nelse\necho n\nfi\necho after\n"),
    ("while-multiline", "i=0\nwhile [ $i -lt 2 ]\ndo\necho $i\ni=$((i+1))\ndone\n"),
    ("case-multiline", "case a in\na)\necho A\n;;\n*)\necho other\n;;\nesac\n"),
    ("func-multiline", "f()\n{\necho in-f\n}\nf\n"),
    ("group-multiline", "{\necho a\necho b\n}\n"),
    ("subshell-multiline", "(\necho a\necho b\n)\n"),
    ("pipeline-multiline", "echo a |\nvcat |\nvcat\n"),
    ("andor-multiline", "true &&\necho y ||\necho n\n"),
    ("heredoc", "vcat <<EOF\nl1\nl2\nEOF\necho after\n"),
    ("heredoc-expand", "x=1\nvcat <<EOF\nv=$x\nEOF\n"),
    ("heredoc-quoted", "vcat <<'EOF'\n$x `y`\nEOF\necho after\n"),
    ("heredoc-in-func", "f() {\nvcat <<EOF\nbody\nEOF\n}\nf\n"),
    ("heredoc-two", "vcat <<A; vcat <<B\na\nA\nb\nB\n"),
    ("dq-multiline", "echo \"a\nb\"\necho after\n"),
    // every construct that can hold a command open across a line end
    ("ansi-c-multiline", "echo $'a\nb\\tc'\necho after\n"),
    ("ansi-c-multiline-escaped-quote", "echo $'a\\'\nb'\necho after\n"),
    ("backquote-multiline", "echo `echo a\necho b`\necho after\n"),
    ("param-default-multiline", "unset u\necho \"${u:-a\nb}\"\necho after\n"),
    ("param-default-unquoted-multiline", "unset u\necho ${u:-a\nb}\necho after\n"),
    ("arith-cmd-multiline", "((x = 1 +\n2))\necho $x\n"),
    ("cond-multiline", "[[ a == a &&\nb == b ]]\necho $?\n"),
    ("cond-paren-multiline", "[[ ( a == a\n) ]]\necho $?\n"),
    ("dq-cmdsub-multiline", "echo \"x $(echo a\necho b) y\"\necho after\n"),
    ("cmdsub-dq-multiline", "echo $(echo \"a\nb\")\necho after\n"),
    ("for-list-multiline", "for i in a \\\nb\ndo echo $i\ndone\n"),
    ("until-multiline", "until true\ndo\necho n\ndone\necho after\n"),
    ("function-keyword-multiline", "function f\n{\necho in-f\n}\nf\n"),
    ("function-subshell-body-multiline", "f() (\necho in-f\n)\nf\n"),
    ("bang-group-multiline", "! {\nfalse\n}\necho $?\n"),
    ("time-group-multiline", "time {\necho a\n} 2>/dev/null\necho after\n"),
    ("assoc-array-multiline", "declare -A m=([a]=1\n[b]=2)\necho ${#m[@]}\n"),
    ("case-pattern-multiline", "case a in\nb |\na)\necho A;;\nesac\n"),
    ("elif-multiline", "if false\nthen :\nelif true\nthen\necho e\nfi\n"),
    ("heredoc-in-cmdsub", "x=$(vcat <<EOF\nbody\nEOF\n)\necho \"$x\"\n"),
    ("herestring-dq-multiline", "vcat <<<\"a\nb\"\necho after\n"),
    ("sq-in-dq-multiline", "echo \"it's\nfine\"\necho after\n"),
    // a here-document after each construct that puts the tokenizer into another mode
    ("legacy-arith-then-heredoc", "echo $[1+2]\nvcat <<EOF\nbody $[2+3]\nEOF\necho after\n"),
    ("arith-then-heredoc", "echo $((1<<2))\nvcat <<EOF\nbody\nEOF\necho after\n"),
    ("arith-cmd-then-heredoc", "((x = 1 << 2))\nvcat <<EOF\nbody $x\nEOF\n"),
    ("arith-for-then-heredoc", "for ((i=0; i<1; i++)); do :; done\nvcat <<-EOF\n\tbody\n\tEOF\n"),
    ("nested-subshell-pipeline-then-heredoc", "( (echo a; echo b) | vcat )\nvcat <<EOF\nbody\nEOF\n"),
    ("cond-then-heredoc", "[[ a < b ]]\nvcat <<EOF\nbody\nEOF\n"),
    ("comment-with-quote", "echo a # don't\necho b\n"),
    ("semicolon-newline-list", "echo a;\necho b\n"),
    ("amp-newline", "vtrue &\nwait\necho b\n"),
    ("sq-multiline", "echo 'a\nb'\necho after\n"),
    ("cmdsub-multiline", "echo $(echo a\necho b)\necho after\n"),
    ("arith-multiline", "echo $((1 +\n2))\n"),
    ("array-multiline", "a=(1\n2\n3)\necho ${#a[@]}\n"),
    ("read-next-line", "read x\ndata line\necho \"x=$x\"\n"),
    ("vline-next-line", "vline\ndata for external\necho after\n"),
    ("read-in-loop", "while read l; do echo \"got $l\"; done\nd1\nd2\n"),
    ("exit-mid", "echo a\nexit 3\necho not-reached\n"),
    ("set-e-stops", "set -e\nvfalse\necho not-reached\n"),
    ("alias-next-line", "shopt -s expand_aliases\nalias hi='echo aliased'\nhi\n"),
    ("function-then-call", "f() { echo one; }\nf\nf() { echo two; }\nf\n"),
    ("return-top", "return 3\necho after=$?\n"),
    ("dollar-zero-and-args", "echo \"$#\"\n"),
];

/// Pieces that consume source lines in different ways (each ends at a line start).
pub const LINE_PIECES: &[(&str, &str)] = &[
    ("plain", "echo a\n"),
    ("blank", "\n"),
    ("blanks-with-space", " \n\t\n"),
    ("comment", "# c\n"),
    ("continuation", "echo a \\\nb\n"),
    ("continuation-blank-next", "echo a \\\n\n"),
    ("continuation-space-next", "echo a \\\n  \n"),
    ("continuation-twice", "echo a \\\n\\\nb\n"),
    ("continuation-comment-next", "echo a \\\n# c\n"),
    ("continuation-only", "\\\n\n"),
    ("continuation-in-word", "echo a\\\nb\n"),
    ("dq-multiline", "echo \"a\nb\"\n"),
    ("sq-multiline", "echo 'a\n\nb'\n"),
    ("heredoc", "vcat <<EOF\nx\n\nEOF\n"),
    ("heredoc-empty", "vcat <<EOF\nEOF\n"),
    ("cmdsub-multiline", "echo $(echo a\n\necho b)\n"),
    ("group-multiline", "{\necho a\n\n}\n"),
    ("if-multiline", "if true\nthen\n\necho a\nfi\n"),
    ("pipe-newline", "echo a |\n\nvcat\n"),
    ("andor-newline", "true &&\n\necho a\n"),
    ("array-multiline", "a=(1\n\n2)\n"),
    ("func-multiline", "f() {\n\necho $LINENO\n}\nf\n"),
];

fn without_lineno(s: &str) -> bool {
    !s.contains("LINENO")
}

// ------------------------------------------------------------------------------------------------ (c)

const TEXTS: &[&str] = &[
    "a@(b)", "x |& y", "[[ a ]]", "f() (:)", "~/a:~/b", "echo !(x)", "a+(b|c)", "echo {a,b}", "x=~/a", "function f { :; }", "echo <(ls)", "a*(b)", "select x in a; do :; done", "coproc x", "echo $'a'",
    "echo $\"a\"", "time -p ls", "! x", "a=(1 2)", "let x=1", "echo ${x@Q}", "case x in @(x)) ;; esac", "echo ?(a)b", "[ -e a ]",
];
const OPTSETS: &[(&str, bool, bool, bool)] = &[("extglob", true, false, false), ("noextglob", false, false, false), ("posix", false, true, false), ("sh", false, true, true)];

fn eval_pair(ip: &crate::engine::inproc::Inproc, sh: &mut crate::engine::inproc::Sh, text: &str, o: usize) -> String {
    let (_, ext, posix, shm) = OPTSETS[o];
    let topts = brush_parser::TokenizerOptions { enable_extended_globbing: ext, posix_mode: posix, sh_mode: shm };
    let popts = brush_parser::ParserOptions { enable_extended_globbing: ext, posix_mode: posix, sh_mode: shm, tilde_expansion_at_word_start: true, tilde_expansion_after_colon: posix, ..Default::default() };
    let t = format!("{:?}", brush_parser::tokenize_str_with_options(text, &topts).map(|v| v.iter().map(|t| t.to_str().to_string()).collect::<Vec<_>>()).map_err(|e| e.to_string()));
    let w = format!("{:?}", brush_parser::word::parse(text, &popts).map_err(|e| e.to_string()));
    let a = format!("{:?}", brush_parser::arithmetic::parse(text).map_err(|e| e.to_string()));
    {
        let opt = sh.options_mut();
        opt.extended_globbing = ext;
        opt.posix_mode = posix;
        opt.sh_mode = shm;
    }
    let p = match sh.parse_string(text.to_string()) {
        Ok(prog) => serde_json::to_string(&prog).unwrap_or_default(),
        Err(e) => format!("ERR {e}"),
    };
    // the regex / pattern cache through the interpreter
    let r = ip.rt.block_on(ip.run_on(sh, &format!("case ab in {text}) echo m;; *) echo n;; esac 2>/dev/null; [[ ab == {text} ]] 2>/dev/null; echo $?")));
    format!("T:{t}\nW:{w}\nA:{a}\nP:{p}\nX:{}", r.out())
}

pub fn worker() -> Handler {
    let ip = crate::engine::inproc::Inproc::new();
    let dir = ip.root.join("w");
    let _ = std::fs::create_dir_all(&dir);
    let mut sh = ip.rt.block_on(ip.build_shell(&dir, &crate::engine::inproc::ShellCfg::default()));
    Box::new(move |case: &[u8]| {
        let v: Value = serde_json::from_slice(case).unwrap();
        let mut outs = vec![];
        for p in v["seq"].as_array().unwrap() {
            let t = p[0].as_u64().unwrap() as usize;
            let o = p[1].as_u64().unwrap() as usize;
            outs.push(eval_pair(&ip, &mut sh, TEXTS[t], o));
        }
        json!({"results": outs}).to_string().into_bytes()
    })
}

pub fn run(tier: Tier, _replay: Option<Value>) -> ! {
    let mut rep = Report::new("C15", tier, "exploration");
    // ---------------------------------------------------------------- programs
    let mut progs: Vec<(String, String)> = PROGRAMS.iter().map(|(n, t)| (n.to_string(), t.to_string())).collect();
    // $LINENO after each line-consuming piece, and after each ordered pair of pieces
    for (i, (n1, p1)) in LINE_PIECES.iter().enumerate() {
        progs.push((format!("lineno-after-{n1}"), format!("{p1}echo L=$LINENO\n")));
        for (j, (n2, p2)) in LINE_PIECES.iter().enumerate() {
            if tier == Tier::Thorough || (i + j) % 3 == 0 {
                progs.push((format!("lineno-after-{n1}-{n2}"), format!("{p1}echo L=$LINENO\n{p2}echo M=$LINENO\n")));
            }
        }
    }
    let leaves = vec![S::Leaf(0), S::Leaf(1)];
    for (k, p) in g::up_to(tier.pick(3, 4), &leaves).iter().enumerate() {
        progs.push((format!("grammar-{k}"), g::script(p, false)));
    }
    // ---------------------------------------------------------------- (a) delivery modes
    let brush = procs::brush_path();
    for mode in ["file", "dash-c", "source", "eval", "stdin"] {
        let cases: Vec<&(String, String)> = progs.iter().filter(|(n, t)| mode == "stdin" || !(n.contains("next-line") || n.contains("read-in-loop"))).filter(|(_, t)| mode != "stdin" || t.len() < 4000).collect();
        let (bout, oout): (Vec<(String, i64)>, Vec<(String, i64, bool)>) = match mode {
            "stdin" => {
                let bs: Vec<procs::ProcSpec> = cases.iter().map(|(_, t)| bash::spec_stdin(&brush, t, 10_000)).collect();
                let os: Vec<procs::ProcSpec> = cases.iter().map(|(_, t)| bash::spec_stdin(bash::BASH, t, 10_000)).collect();
                let b = procs::run_many(&bs, bash::procs_par());
                let o = procs::run_many(&os, bash::procs_par());
                (b.iter().map(|x| (if x.timed_out { "TIMEOUT".to_string() } else { x.out_str() }, x.status as i64)).collect(), o.iter().map(|x| (x.out_str(), x.status as i64, x.timed_out)).collect())
            }
            _ => {
                let j: Vec<Value> = cases
                    .iter()
                    .map(|(_, t)| match mode {
                        "file" => json!({"s": t, "mode": "file"}),
                        "dash-c" => json!({"s": t, "mode": "dash-c"}),
                        "source" => json!({"s": "source ./prog.sh\n", "mode": "file", "files": {"prog.sh": t}}),
                        _ => json!({"s": "eval \"$PROG\"\n", "mode": "file", "vars": {"PROG": t}}),
                    })
                    .collect();
                let b = common::run_scripts(&j, 20_000);
                let os: Vec<procs::ProcSpec> = cases
                    .iter()
                    .map(|(_, t)| match mode {
                        "file" => bash::spec_file(bash::BASH, t, 10_000),
                        "dash-c" => bash::spec_dash_c(bash::BASH, t, 10_000),
                        "source" => {
                            let mut sp = bash::spec_file(bash::BASH, "source ./prog.sh\n", 10_000);
                            sp.files.push(("prog.sh".into(), t.as_bytes().to_vec()));
                            sp
                        }
                        _ => {
                            let mut sp = bash::spec_file(bash::BASH, "eval \"$PROG\"\n", 10_000);
                            sp.env.push(("PROG".into(), t.clone()));
                            sp
                        }
                    })
                    .collect();
                let o = procs::run_many(&os, bash::procs_par());
                (b.iter().map(|x| (x.crash.clone().map(|c| format!("CRASH {c}")).unwrap_or_else(|| x.out.clone()), x.status)).collect(), o.iter().map(|x| (x.out_str(), x.status as i64, x.timed_out)).collect())
            }
        };
        for (k, (name, text)) in cases.iter().enumerate() {
            rep.evaluations += 1;
            if oout[k].2 {
                continue;
            }
            let got = format!("{}status={}", bout[k].0, bout[k].1);
            let want = format!("{}status={}", oout[k].0, oout[k].1);
            rep.observe(&got);
            rep.nontrivial.insert(format!("{mode}|{name}"));
            if got != want {
                let mut tags = vec![format!("mode:{mode}"), format!("prog:{}", if name.starts_with("grammar-") { "grammar" } else { name.as_str() })];
                if oout[k].1 == 127 && bout[k].1 == 1 && got.replace("status=1", "status=127") == want {
                    tags.push("status-1-vs-127".into());
                }
                rep.fail(Failure { case: format!("mode={mode}\n{text}"), tags, expected: want, observed: got, oracle: "bash-same-mode".into() });
            }
        }
        if let Some(c) = cases.get(3) {
            rep.sample(json!({"mode": mode, "program": c.1}));
        }
    }
    // cross-mode equality in brush itself (programs without LINENO, which legitimately depends on the mode)
    {
        let cases: Vec<&(String, String)> = progs.iter().filter(|(n, t)| without_lineno(t) && !(n.contains("next-line") || n.contains("read-in-loop") || n == "return-top" || n == "dollar-zero-and-args")).collect();
        let mk = |mode: &str, t: &str| match mode {
            "file" => json!({"s": t, "mode": "file"}),
            "dash-c" => json!({"s": t, "mode": "dash-c"}),
            "source" => json!({"s": "source ./prog.sh\n", "mode": "file", "files": {"prog.sh": t}}),
            _ => json!({"s": "eval \"$PROG\"\n", "mode": "file", "vars": {"PROG": t}}),
        };
        let base = common::run_scripts(&cases.iter().map(|(_, t)| mk("file", t)).collect::<Vec<_>>(), 20_000);
        for mode in ["dash-c", "source", "eval"] {
            let other = common::run_scripts(&cases.iter().map(|(_, t)| mk(mode, t)).collect::<Vec<_>>(), 20_000);
            for (k, (name, text)) in cases.iter().enumerate() {
                rep.evaluations += 1;
                let a = format!("{}status={}", base[k].out, base[k].status);
                let b = format!("{}status={}", other[k].out, other[k].status);
                if a != b {
                    rep.fail(Failure { case: format!("mode={mode} vs file\n{text}"), tags: vec![format!("mode:{mode}"), "cross-mode".into(), format!("prog:{}", if name.starts_with("grammar-") { "grammar" } else { name.as_str() })], expected: a, observed: b, oracle: "self-differential".into() });
                }
            }
        }
    }
    // ---------------------------------------------------------------- (b) every line prefix on stdin
    {
        let mut pre: Vec<(String, String, usize)> = vec![];
        for (n, t) in progs.iter().filter(|(n, t)| t.len() < 2000 && (tier == Tier::Thorough || !n.starts_with("grammar-") || n.len() < 11)) {
            let lines: Vec<&str> = t.split_inclusive('\n').collect();
            for k in 1..lines.len() {
                pre.push((n.clone(), lines[..k].concat(), k));
            }
        }
        let bs: Vec<procs::ProcSpec> = pre.iter().map(|(_, t, _)| bash::spec_stdin(&brush, t, 10_000)).collect();
        let os: Vec<procs::ProcSpec> = pre.iter().map(|(_, t, _)| bash::spec_stdin(bash::BASH, t, 10_000)).collect();
        let b = procs::run_many(&bs, bash::procs_par());
        let o = procs::run_many(&os, bash::procs_par());
        for (k, (name, text, nlines)) in pre.iter().enumerate() {
            rep.evaluations += 1;
            if o[k].timed_out {
                continue;
            }
            rep.nontrivial.insert(format!("prefix|{name}|{nlines}"));
            // a prefix that ends inside an unfinished command: only the commands that ran are compared (the
            // status and wording for the dangling rest are not specified; bash even runs an undelimited
            // here-document with a warning)
            let oe = o[k].err_str();
            let dangling = oe.contains("unexpected end of file") || oe.contains("here-document") || oe.contains("unexpected EOF");
            if dangling && (text.contains("<<")) {
                rep.add("prefixes_cutting_a_heredoc_skipped", 1);
                continue;
            }
            let got = if b[k].timed_out { "TIMEOUT".to_string() } else if dangling { format!("{}(dangling)", b[k].out_str()) } else { format!("{}status={} diag={}", b[k].out_str(), b[k].status, !b[k].stderr.is_empty()) };
            let want = if dangling { format!("{}(dangling)", o[k].out_str()) } else { format!("{}status={} diag={}", o[k].out_str(), o[k].status, !o[k].stderr.is_empty()) };
            if got != want {
                let mut tags = vec!["prefix".to_string(), format!("prog:{}", if name.starts_with("grammar-") { "grammar" } else { name.as_str() })];
                if b[k].out_str() == o[k].out_str() {
                    tags.push("only-status-or-diag".into());
                }
                rep.fail(Failure { case: format!("stdin prefix of {nlines} line(s)\n{text}"), tags, expected: want, observed: got, oracle: "bash-stdin-prefix".into() });
            }
        }
        rep.set("stdin_prefixes", pre.len() as u64);
    }
    // ---------------------------------------------------------------- (c) cache transparency
    {
        let npairs = TEXTS.len() * OPTSETS.len();
        let pair = |i: usize| (i / OPTSETS.len(), i % OPTSETS.len());
        // pristine table: one fresh worker per pair
        let pcfg = PoolCfg::new("c15").timeout_ms(20_000);
        let mut pristine: Vec<String> = vec![];
        {
            // a fresh process per case: workers=1 and the worker is restarted by asking it to handle one case
            let specs: Vec<Vec<u8>> = (0..npairs).map(|i| json!({"seq": [[pair(i).0, pair(i).1]]}).to_string().into_bytes()).collect();
            for s in &specs {
                let o = pool::run(&PoolCfg::new("c15").timeout_ms(20_000).workers(1), std::slice::from_ref(s));
                match &o[0] {
                    Outcome::Ok(b) => {
                        let v: Value = serde_json::from_slice(b).unwrap();
                        pristine.push(v["results"][0].as_str().unwrap_or("").to_string());
                    }
                    other => crate::engine::report::machinery_fail(&format!("pristine evaluation failed: {}", other.describe())),
                }
            }
        }
        let _ = pcfg;
        // sequences: all ordered pairs of (text, options) pairs, and for every text all orders of 3 option sets
        let mut seqs: Vec<Vec<usize>> = vec![];
        for i in 0..npairs {
            for j in 0..npairs {
                if tier == Tier::Quick && pair(i).0 != pair(j).0 && (i + j) % 7 != 0 {
                    continue;
                }
                seqs.push(vec![i, j]);
            }
        }
        for t in 0..TEXTS.len() {
            for a in 0..OPTSETS.len() {
                for b in 0..OPTSETS.len() {
                    for c in 0..OPTSETS.len() {
                        seqs.push(vec![t * OPTSETS.len() + a, t * OPTSETS.len() + b, t * OPTSETS.len() + c]);
                    }
                }
            }
        }
        // long-lived workers: each keeps its caches across all the sequences it is handed
        let cases: Vec<Vec<u8>> = seqs.iter().map(|s| json!({"seq": s.iter().map(|i| vec![pair(*i).0, pair(*i).1]).collect::<Vec<_>>()}).to_string().into_bytes()).collect();
        let outs = pool::run(&PoolCfg::new("c15").timeout_ms(60_000), &cases);
        for (s, o) in seqs.iter().zip(outs.iter()) {
            rep.evaluations += s.len() as u64;
            match o {
                Outcome::Ok(b) => {
                    let v: Value = serde_json::from_slice(b).unwrap();
                    for (k, i) in s.iter().enumerate() {
                        let got = v["results"][k].as_str().unwrap_or("");
                        if got != pristine[*i] {
                            let (t, op) = pair(*i);
                            // which entry point differs
                            let part = got.lines().zip(pristine[*i].lines()).find(|(a, b)| a != b).map(|(a, _)| a.chars().next().unwrap_or('?')).unwrap_or('?');
                            rep.fail(Failure {
                                case: format!("sequence {:?} (position {k}): text {:?} under {}", s.iter().map(|i| format!("{}@{}", TEXTS[pair(*i).0], OPTSETS[pair(*i).1].0)).collect::<Vec<_>>(), TEXTS[t], OPTSETS[op].0),
                                tags: vec!["cache".into(), format!("entry:{part}"), format!("opts:{}", OPTSETS[op].0)],
                                expected: crate::engine::report::truncate(&pristine[*i], 400),
                                observed: crate::engine::report::truncate(got, 400),
                                oracle: "pristine-process".into(),
                            });
                        }
                    }
                }
                other => rep.fail(Failure { case: format!("{:?}", s), tags: vec!["cache".into(), "crash".into()], expected: "".into(), observed: other.describe(), oracle: "no-crash".into() }),
            }
        }
        rep.set("cache_sequences", seqs.len() as u64);
        rep.set("cache_pairs", npairs as u64);
        rep.sample(json!({"cache_sequence": ["a@(b)@extglob", "a@(b)@noextglob", "a@(b)@extglob"]}));
    }
    rep.set("programs", progs.len() as u64);
    rep.rule = format!(
        "(a) {} multi-line feature programs, $LINENO after each of {} line-consuming pieces and after ordered pairs of them (all pairs at the thorough tier, a third at the quick tier) + all grammar programs with <= {} nodes x delivery modes file/-c/source/eval (in-process public entry points) and stdin (real binary), each against bash in the same mode, plus cross-mode equality inside brush; (b) every line-prefix of every program on stdin of the real binary vs bash; (c) all ordered pairs of (text, option-set) pairs ({} texts x 4 option sets{}) and all 64 option orders per text, evaluated by long-lived workers through tokenize_str_with_options, word::parse, arithmetic::parse, Shell::parse_string and the interpreter's pattern cache, against a table computed by one pristine process per pair",
        PROGRAMS.len(),
        LINE_PIECES.len(),
        tier.pick(3, 4),
        TEXTS.len(),
        if tier == Tier::Quick { "; cross-text pairs thinned 1/7 at the quick tier" } else { "" }
    );
    rep.assumptions.push("LINENO is compared with bash per mode only, not across modes".into());
    rep.finish()
}
