pub mod c19;

use crate::engine::pool::Handler;
use crate::engine::report::Tier;
use serde_json::Value;

pub fn run(prop: &str, tier: Tier, replay: Option<Value>) -> ! {
    match prop {
        "C19" => c19::run(tier, replay),
        _ => crate::engine::report::machinery_fail(&format!("unknown property {prop}")),
    }
}

pub fn worker(kind: &str) -> Handler {
    match kind {
        "c19" => c19::worker(),
        _ => crate::engine::report::machinery_fail(&format!("unknown worker kind {kind}")),
    }
}
