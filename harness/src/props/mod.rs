pub mod c01;
pub mod c02;
pub mod c03;
pub mod c04;
pub mod c05;
pub mod c06;
pub mod c07;
pub mod cfgrammar;
pub mod c08;
pub mod c09;
pub mod c10;
pub mod c11;
pub mod c12;
pub mod c13;
pub mod c14;
pub mod c15;
pub mod c16;
pub mod c17;
pub mod c18;
pub mod c19;
pub mod common;
pub mod c20;

use crate::engine::pool::Handler;
use crate::engine::report::Tier;
use serde_json::Value;

pub fn run(prop: &str, tier: Tier, replay: Option<Value>) -> ! {
    match prop {
        "C01" => c01::run(tier, replay),
        "C02" => c02::run(tier, replay),
        "C03" => c03::run(tier, replay),
        "C04" => c04::run(tier, replay),
        "C05" => c05::run(tier, replay),
        "C06" => c06::run(tier, replay),
        "C07" => c07::run(tier, replay),
        "C08" => c08::run(tier, replay),
        "C09" => c09::run(tier, replay),
        "C10" => c10::run(tier, replay),
        "C11" => c11::run(tier, replay),
        "C12" => c12::run(tier, replay),
        "C13" => c13::run(tier, replay),
        "C14" => c14::run(tier, replay),
        "C15" => c15::run(tier, replay),
        "C16" => c16::run(tier, replay),
        "C17" => c17::run(tier, replay),
        "C18" => c18::run(tier, replay),
        "C19" => c19::run(tier, replay),
        "C20" => c20::run(tier, replay),
        _ => crate::engine::report::machinery_fail(&format!("unknown property {prop}")),
    }
}

pub fn worker(kind: &str) -> Handler {
    match kind {
        "c01" => c01::worker(),
        "c12" => c12::worker(),
        "c14" => c14::worker(),
        "c15" => c15::worker(),
        "c17" => c17::worker(),
        "c18" => c18::worker(),
        "c19" => c19::worker(),
        "script" => common::script_worker(),
        _ => crate::engine::report::machinery_fail(&format!("unknown worker kind {kind}")),
    }
}
