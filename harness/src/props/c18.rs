//! C18 — long sessions do not leak descriptors, children or internal stacks.
//! All command sequences up to a length bound over 45 leaves (a third of them fault leaves), repeated N
//! times in ONE shell; after N iterations the process must have the same number of descriptors, no
//! zombie children, the same scope and call-stack depth, and the N-th iteration must print what the
//! first did.

use crate::engine::enumerate;
use crate::engine::inproc::{Inproc, ShellCfg};
use crate::engine::pool::{self, Handler, Outcome, PoolCfg};
use crate::engine::report::{Failure, Report, Tier};
use serde_json::{Value, json};

pub const LEAVES: &[(&str, &str)] = &[
    ("redir-out", "echo a >o.txt"),
    ("assign", "x=1"),
    ("external", "vtrue"),
    ("func", "fa() { echo in >/dev/null; }; fa"),
    ("subshell", "( echo sub >/dev/null )"),
    ("cmdsub", "echo $(echo cs) >/dev/null"),
    ("pipeline", "echo a | vcat >/dev/null"),
    ("pipeline-builtin-last", "vemit p | while read l; do :; done"),
    ("herestring", "vcat <<<hs >/dev/null"),
    ("heredoc", "vcat <<EOF >/dev/null\nhd\nEOF"),
    ("procsub", "vcat <(echo ps) >/dev/null"),
    ("background", "echo bg >/dev/null & wait"),
    ("loop", "for i in 1 2; do :; done"),
    ("group-redir", "{ echo g; } >/dev/null 2>&1"),
    ("tmp-assign-func", "fb() { :; }; x=tmp fb"),
    ("eval", "eval 'echo e >/dev/null'"),
    ("source", ". ./inc.sh"),
    ("source-empty-file", ". ./empty.sh"),
    ("source-comment-only", ". ./cmt.sh a"),
    ("source-dev-null", ". /dev/null"),
    ("fd-dup", "echo a 3>&1 >/dev/null 2>&3"),
    ("rw-fd", "echo a 3<>rw.txt >&3"),
    ("local", "fc() { local l=1; }; fc"),
    ("nested-func", "fd1() { fd2() { :; }; fd2; }; fd1"),
    ("trap-err", "trap 'echo t >/dev/null' ERR; vfalse; trap - ERR"),
    ("read", "read v <<<line"),
    ("mapfile", "mapfile -t arr <<<$'a\\nb'"),
    ("printf-v", "printf -v pv '%s' x"),
    ("coproc", "coproc { :; }; wait"),
    // fault leaves
    ("F:redir-missing-dir", "echo a >/nonexistent-dir/f"),
    ("F:redir-unwritable", "echo a >/proc/version"),
    ("F:redir-in-missing", "vcat </nonexistent-file"),
    ("F:unknown-command", "nosuchcmd"),
    ("F:bad-substitution", "echo ${x!}"),
    ("F:readonly-assign", "readonly ro; ro=2"),
    ("F:return-mid-func", "fe() { return 3; echo no; }; fe"),
    ("F:break-2", "for i in 1 2; do for j in 1 2; do break 2; done; done"),
    ("F:continue-2", "for i in 1 2; do for j in 1 2; do continue 2; done; done"),
    ("F:failing-func-tmp-assign", "ff() { vfalse; return 1; }; x=tmp ff"),
    ("F:source-missing", ". ./nosuchfile"),
    ("F:heredoc-redir-error", "vcat <<EOF >/nonexistent-dir/f\nhd\nEOF"),
    ("F:cmdsub-unknown", "echo $(nosuchcmd) >/dev/null"),
    ("F:pipeline-unknown-first", "nosuchcmd | vcat >/dev/null"),
    ("F:pipeline-unknown-last", "vtrue | nosuchcmd"),
    ("F:background-unknown", "nosuchcmd & wait"),
    ("F:procsub-unknown", "vcat <(nosuchcmd) >/dev/null"),
    ("F:cd-missing", "cd /nonexistent-dir"),
    ("F:func-unknown-with-local", "fg1() { local l=1; nosuchcmd; }; fg1"),
    ("F:arith-div0", "echo $((1/0))"),
    ("F:subshell-exit", "( exit 3 )"),
    ("F:loop-redir-error", "while true; do break; done </nonexistent-file"),
    ("F:func-redir-error", "fh() { :; }; fh >/nonexistent-dir/f"),
    ("F:tmp-assign-unknown", "x=tmp nosuchcmd"),
    ("F:tmp-assign-redir-error", "x=tmp vtrue >/nonexistent-dir/f"),
    ("F:group-redir-error", "{ echo g; } >/nonexistent-dir/f"),
    ("F:return-in-sourced-loop", ". ./ret.sh"),
    ("F:eval-syntax-error", "eval 'if'"),
    ("F:unset-readonly", "readonly ro2; unset ro2"),
    // a prefix assignment whose own evaluation fails, before the command runs
    // an external command that cannot be started (path with a slash: missing, a directory, not executable)
    ("F:exec-missing-path", "./no-such-program"),
    ("F:exec-directory", "/"),
    ("F:exec-not-executable", "./inc.sh"),
    ("F:exec-missing-path-tmp-assign", "x=tmp ./no-such-program"),
    ("F:tmp-assign-arith-error", "x=$((1/0)) vtrue"),
    ("F:tmp-assign-index-error", "ta[1/0]=x vtrue"),
    ("F:tmp-assign-compound-to-element", "ta[0]=(1 2) vtrue"),
    ("F:tmp-assign-bad-substitution", "x=${y!} vtrue"),
    ("F:tmp-assign-error-builtin", "x=$((1/0)) echo b >/dev/null"),
    ("F:tmp-assign-error-function", "fk() { :; }; x=$((1/0)) fk"),
];

/// Contexts a command sequence is run in. The fault leaves end in different ways (status, control flow,
/// internal error) and each way has to unwind whatever the context pushed.
pub const CONTEXTS: &[(&str, &str, &str)] = &[
    ("top", "", ""),
    ("func", "wf() { local wl=1\n", "\n}; wt=tmp wf a b"),
    ("sourced", "", ""), // the sequence is written to seq.sh and run as `wt=tmp . ./seq.sh a b`
    ("debug-trap", "hf() {\n", "\n}; trap hf DEBUG; :; trap - DEBUG"),
    ("err-trap", "hf() {\n", "\n}; trap hf ERR; vfalse; trap - ERR"),
    ("func-in-loop", "wf() {\n", "\n}; for wi in 1 2; do wf $wi; done"),
];

/// Run after every iteration, in its own `run_string`: what the shell itself says about its stacks.
const PROBE: &str = "echo \"P:${#FUNCNAME[@]}:$#:$*:${wt-unset}:${wl-unset}:${#BASH_SOURCE[@]}\"";

fn count_fds() -> usize {
    std::fs::read_dir("/proc/self/fd").map(|d| d.count()).unwrap_or(0)
}

fn zombies() -> usize {
    let me = std::process::id().to_string();
    let mut n = 0;
    if let Ok(rd) = std::fs::read_dir("/proc") {
        for e in rd.flatten() {
            let name = e.file_name().to_string_lossy().into_owned();
            if !name.chars().all(|c| c.is_ascii_digit()) {
                continue;
            }
            if let Ok(stat) = std::fs::read_to_string(format!("/proc/{name}/stat")) {
                // pid (comm) state ppid …
                if let Some(rp) = stat.rfind(')') {
                    let f: Vec<&str> = stat[rp + 1..].split_whitespace().collect();
                    if f.len() > 1 && f[0] == "Z" && f[1] == me {
                        n += 1;
                    }
                }
            }
        }
    }
    n
}

pub fn worker() -> Handler {
    let mut ip = Inproc::new();
    Box::new(move |case: &[u8]| {
        let v: Value = serde_json::from_slice(case).unwrap();
        let script = v["s"].as_str().unwrap_or("").to_string();
        let n = v["n"].as_u64().unwrap_or(2) as usize;
        let dir = ip.fresh_dir();
        std::fs::write(dir.join("inc.sh"), "iv=1\n").unwrap();
        std::fs::write(dir.join("empty.sh"), "").unwrap();
        std::fs::write(dir.join("cmt.sh"), "# nothing\n\n").unwrap();
        std::fs::write(dir.join("ret.sh"), "for k in 1 2; do return 4; done\n").unwrap();
        if let Some(q) = v["seqfile"].as_str() {
            std::fs::write(dir.join("seq.sh"), q).unwrap();
        }
        let ipr: &Inproc = &ip;
        let out = ipr.rt.block_on(async {
            let mut sh = ipr.build_shell(&dir, &ShellCfg::default()).await;
            ipr.bind_stdio(&mut sh);
            let params = sh.default_exec_params();
            let src = brush_core::SourceInfo::default();
            let depths = |sh: &crate::engine::inproc::Sh| -> (usize, usize) {
                let j = serde_json::to_value(sh).unwrap_or(Value::Null);
                (j["env"]["scopes"].as_array().map(|a| a.len()).unwrap_or(usize::MAX), j["call_stack"]["frames"].as_array().map(|a| a.len()).unwrap_or(usize::MAX))
            };
            let settle = || async {
                for _ in 0..10 {
                    tokio::task::yield_now().await;
                }
                tokio::time::sleep(std::time::Duration::from_millis(2)).await;
            };
            let read_from = |off: (usize, usize)| -> (String, (usize, usize)) {
                let o = std::fs::read(ipr.root.join("stdout")).unwrap_or_default();
                let e = std::fs::read(ipr.root.join("stderr")).unwrap_or_default();
                // stdout only: diagnostics of asynchronous contexts (process substitutions, background jobs)
                // may arrive during a later iteration
                let _ = &e;
                let s = String::from_utf8_lossy(&o[off.0.min(o.len())..]).into_owned();
                (s, (o.len(), e.len()))
            };
            // iteration 1 (also the warm-up for lazily created runtime descriptors)
            let r1 = sh.run_string(script.clone(), &src, &params).await;
            let st1 = r1.map(|r| u8::from(r.exit_code) as i64).unwrap_or(-1);
            let _ = sh.run_string(PROBE.to_string(), &src, &params).await;
            settle().await;
            let (out1, mut off) = read_from((0, 0));
            // descriptors of unwaited process substitutions close a little later, more so on a busy machine:
            // for scripts with asynchronous parts a count is taken once it has been the same for 15 ms
            let asyncish = script.contains("<(") || script.contains(">(") || script.contains('&') || script.contains("coproc");
            let stable_fds = || async {
                let mut n = count_fds();
                if !asyncish {
                    return n;
                }
                let mut same = 0;
                for _ in 0..400 {
                    tokio::time::sleep(std::time::Duration::from_millis(5)).await;
                    let m = count_fds();
                    if m == n {
                        same += 1;
                        if same >= 3 {
                            break;
                        }
                    } else {
                        same = 0;
                        n = m;
                    }
                }
                n
            };
            let fd1 = stable_fds().await;
            let (sc1, cs1) = depths(&sh);
            let mut last_out = out1.clone();
            let mut last_st = st1;
            for _ in 1..n {
                let r = sh.run_string(script.clone(), &src, &params).await;
                last_st = r.map(|r| u8::from(r.exit_code) as i64).unwrap_or(-1);
                let _ = sh.run_string(PROBE.to_string(), &src, &params).await;
                let (o, no) = read_from(off);
                off = no;
                last_out = o;
            }
            settle().await;
            let mut fdn = stable_fds().await;
            // a leak is a count that does not come back within a second
            for _ in 0..100 {
                if fdn == fd1 {
                    break;
                }
                tokio::time::sleep(std::time::Duration::from_millis(10)).await;
                fdn = count_fds();
            }
            // fewer descriptors than after the first iteration: the first count caught a descriptor of an
            // asynchronous part that had not been closed yet. The lower count becomes the base and the
            // sequence is repeated another N times against it.
            let mut fd1 = fd1;
            if fdn < fd1 {
                fd1 = fdn;
                for _ in 0..n {
                    let r = sh.run_string(script.clone(), &src, &params).await;
                    last_st = r.map(|r| u8::from(r.exit_code) as i64).unwrap_or(-1);
                    let _ = sh.run_string(PROBE.to_string(), &src, &params).await;
                    let (o, no) = read_from(off);
                    off = no;
                    last_out = o;
                }
                settle().await;
                fdn = stable_fds().await;
                for _ in 0..100 {
                    if fdn == fd1 {
                        break;
                    }
                    tokio::time::sleep(std::time::Duration::from_millis(10)).await;
                    fdn = count_fds();
                }
            }
            let _ = off;
            let (scn, csn) = depths(&sh);
            let mut z = zombies();
            if z > 0 {
                tokio::time::sleep(std::time::Duration::from_millis(50)).await;
                z = zombies();
            }
            json!({"fd1": fd1, "fdn": fdn, "sc1": sc1, "scn": scn, "cs1": cs1, "csn": csn, "zombies": z, "out1": out1, "outn": last_out, "st1": st1, "stn": last_st})
        });
        out.to_string().into_bytes()
    })
}

pub fn run(tier: Tier, replay: Option<Value>) -> ! {
    let mut rep = Report::new("C18", tier, "exploration");
    // (sequence, context index, tags, N)
    let mut cases: Vec<(String, usize, Vec<String>, usize)> = vec![];
    if let Some(r) = &replay {
        rep.replay_mode = true;
        let c = r["case"].as_str().unwrap_or("");
        let (head, s) = c.split_once('\n').unwrap_or(("N=50", c));
        let mut n = 50;
        let mut ctx = 0;
        for w in head.split_whitespace() {
            if let Some(x) = w.strip_prefix("N=") {
                n = x.parse().unwrap_or(50);
            }
            if let Some(x) = w.strip_prefix("CTX=") {
                ctx = CONTEXTS.iter().position(|c| c.0 == x).unwrap_or(0);
            }
        }
        cases.push((s.to_string(), ctx, vec![], n));
    } else {
        let ns: Vec<usize> = match tier {
            Tier::Quick => vec![2, 50],
            Tier::Thorough => vec![2, 50, 500],
        };
        let seqs = enumerate::sequences(LEAVES.len(), tier.pick(2, 3));
        for s in seqs.iter().filter(|s| !s.is_empty()) {
            // thorough: length-3 sequences start with a fault leaf (every pair is already covered)
            // … and end with one: a fault, anything, a fault
            if s.len() == 3 && !(LEAVES[s[0]].0.starts_with("F:") && LEAVES[s[2]].0.starts_with("F:")) {
                continue;
            }
            for (ci, ctx) in CONTEXTS.iter().enumerate() {
                // quick: pairs at top level and in a function body; every other context gets the single
                // leaves and the pairs that start with a fault leaf
                if tier == Tier::Quick && ci >= 2 && s.len() == 2 && !LEAVES[s[0]].0.starts_with("F:") {
                    continue;
                }
                if s.len() == 3 && ci >= 1 {
                    continue;
                }
                // pairs outside the top-level context: one run of 6 iterations (a leak is linear in N)
                let pair_elsewhere = ci >= 1 && s.len() == 2;
                // quick: top-level pairs run 2 and 16 times, single leaves 2 and 50 times
                let ns_here: Vec<usize> = if pair_elsewhere {
                    vec![tier.pick(6, 50)]
                } else if tier == Tier::Quick && s.len() == 2 {
                    vec![2, 16]
                } else {
                    ns.clone()
                };
                for &n in &ns_here {
                    if n == 500 && s.len() > 1 {
                        continue;
                    }
                    if s.len() == 3 && n != 2 {
                        continue;
                    }
                    let seq: String = s.iter().map(|i| LEAVES[*i].1).collect::<Vec<_>>().join("\n");
                    let mut tags: Vec<String> = s.iter().map(|i| format!("leaf:{}", LEAVES[*i].0)).collect();
                    tags.push(format!("ctx:{}", ctx.0));
                    cases.push((seq, ci, tags, if s.len() == 3 { 10 } else { n }));
                }
            }
        }
    }
    let build = |seq: &str, ci: usize| -> (String, Option<String>) {
        let c = CONTEXTS[ci];
        if c.0 == "sourced" { ("wt=tmp . ./seq.sh a b".to_string(), Some(format!("{seq}\n"))) } else { (format!("{}{seq}{}", c.1, c.2), None) }
    };
    let cfg = PoolCfg::new("c18").timeout_ms(120_000);
    let bytes: Vec<Vec<u8>> = cases
        .iter()
        .map(|(s, ci, _, n)| {
            let (script, seqfile) = build(s, *ci);
            json!({"s": script, "n": n, "seqfile": seqfile}).to_string().into_bytes()
        })
        .collect();
    let outs = pool::run(&cfg, &bytes);
    for (i, o) in outs.iter().enumerate() {
        rep.evaluations += 1;
        let (script, ci, tags0, n) = &cases[i];
        let desc = if *ci == 0 { format!("N={n}\n{script}") } else { format!("N={n} CTX={}\n{script}", CONTEXTS[*ci].0) };
        let mut tags = tags0.clone();
        tags.sort();
        tags.dedup();
        match o {
            Outcome::Ok(b) => {
                let v: Value = serde_json::from_slice(b).unwrap_or(Value::Null);
                rep.observe(&format!("{}|{}|{}", v["fd1"], v["sc1"], v["cs1"]));
                rep.nontrivial.insert(format!("{script}|{ci}|{n}"));
                if i % (cases.len() / 5).max(1) == 0 {
                    rep.sample(json!({"N": n, "sequence": script, "fds": v["fdn"], "scopes": v["scn"], "frames": v["csn"]}));
                }
                let mut fail = |oracle: &str, exp: String, obs: String, rep: &mut Report| {
                    rep.fail(Failure { case: desc.clone(), tags: tags.clone(), expected: exp, observed: obs, oracle: oracle.into() });
                };
                if v["fdn"] != v["fd1"] {
                    fail("descriptor-count", format!("{} descriptors (as after one iteration)", v["fd1"]), format!("{} after {n} iterations", v["fdn"]), &mut rep);
                }
                if v["scn"] != v["sc1"] {
                    fail("scope-depth", format!("{} scopes", v["sc1"]), format!("{} after {n} iterations", v["scn"]), &mut rep);
                }
                if v["csn"] != v["cs1"] {
                    fail("call-stack-depth", format!("{} frames", v["cs1"]), format!("{} after {n} iterations", v["csn"]), &mut rep);
                }
                if v["zombies"].as_u64().unwrap_or(0) > 0 {
                    fail("no-zombies", "0 unreaped children".into(), format!("{} zombies", v["zombies"]), &mut rep);
                }
                if v["outn"] != v["out1"] || v["stn"] != v["st1"] {
                    fail("kth-iteration-equals-first", format!("{} status {}", v["out1"], v["st1"]), format!("{} status {}", v["outn"], v["stn"]), &mut rep);
                }
            }
            other => {
                tags.push("crash".into());
                rep.fail(Failure { case: desc, tags, expected: "completes".into(), observed: other.describe(), oracle: "no-crash".into() });
            }
        }
    }
    rep.set("leaves", LEAVES.len() as u64);
    rep.rule = format!(
        "all sequences of <= {} commands over {} leaves ({} fault leaves: redirect errors, unknown commands, bad substitution, readonly, return/break/continue out of nested constructs, failing functions with temporary assignments, failing source/here-doc/$()/pipeline/background/process substitution) each run in {} contexts (top level; body of a function called with arguments and a temporary assignment; sourced file with arguments; function run as DEBUG-trap / ERR-trap handler; function called from a loop), repeated N in {{2, 50{}}} times (quick tier: top-level pairs N = 2 and 16, pairs in the other contexts N = 6) in one in-process shell, followed each time by a probe of ${{#FUNCNAME[@]}} $# $* and the temporary/local names; compared with the state after one iteration",
        tier.pick(2, 3),
        LEAVES.len(),
        LEAVES.iter().filter(|l| l.0.starts_with("F:")).count(),
        CONTEXTS.len(),
        if tier == Tier::Thorough { ", 500 (single leaves)" } else { "" }
    );
    rep.assumptions.push("the first iteration serves as warm-up for lazily created runtime descriptors; counts are taken after a short settle".into());
    rep.finish()
}
