//! C08 — glob, bracket and extglob patterns match exactly the strings bash matches.
//! All (pattern, subject) pairs over small alphabets through `case`, `[[ == ]]` (pattern from an
//! expansion and literally in the source), quoted patterns (identity oracle), plus pathname expansion
//! over all small directory trees. Oracles: bash (live), and a reference matcher validated against bash.

use super::common;
use crate::engine::report::{Failure, Report, Tier};
use crate::engine::{bash, enumerate, globref};
use serde_json::{Value, json};

pub const SP: &[&str] = &["a", "b", "*", "?", "[", "]", "!", "-", "\\", "(", "|", ")", "@", "+", "\n"];
pub const SS: &[&str] = &["a", "b", "-", "]", "\n", "é"];

pub fn ansi_c(s: &str) -> String {
    let mut o = String::from("$'");
    for c in s.chars() {
        match c {
            '\\' => o.push_str("\\\\"),
            '\'' => o.push_str("\\'"),
            '\n' => o.push_str("\\n"),
            '\t' => o.push_str("\\t"),
            '\r' => o.push_str("\\r"),
            c if (c as u32) < 0x20 || c as u32 == 0x7f => o.push_str(&format!("\\x{:02x}", c as u32)),
            c => o.push(c),
        }
    }
    o.push('\'');
    o
}

pub fn bash_array(name: &str, items: &[String]) -> String {
    let mut s = format!("{name}=(");
    for it in items {
        s.push_str(&ansi_c(it));
        s.push(' ');
    }
    s.push_str(")\n");
    s
}

fn pattern_tags(p: &str) -> Vec<String> {
    let mut t = vec![];
    let mut add = |x: &str| {
        if !t.iter().any(|y: &String| y == x) {
            t.push(x.to_string())
        }
    };
    if p.contains('[') {
        add("pat:bracket")
    }
    if p.contains("[]") || p.contains("[!]") {
        add("pat:leading-rbracket")
    }
    if p.contains('\\') {
        add("pat:backslash")
    }
    if p.contains('(') {
        add("pat:paren")
    }
    if p.contains("@(") || p.contains("+(") || p.contains("?(") || p.contains("*(") || p.contains("!(") {
        add("pat:extglob-group")
    }
    // degenerate extglob groups: an alternative that is the empty string, or a bare `(` inside a group
    if p.contains("()") || p.contains("(|") || p.contains("|)") || p.contains("||") {
        add("pat:empty-alternative")
    }
    if p.contains("((") {
        add("pat:paren-inside-group")
    }
    // the negation of a group that matches everything
    if p.contains("!(*)") || (p.contains("!(") && (p.contains("(*|") || p.contains("|*)"))) {
        add("pat:negated-match-all")
    }
    // a pattern that ends in an unescaped backslash
    if p.chars().rev().take_while(|c| *c == '\\').count() % 2 == 1 {
        add("pat:trailing-backslash")
    }
    if p.contains('\n') {
        add("pat:newline")
    }
    if p.contains('*') {
        add("pat:star")
    }
    if p.contains('?') {
        add("pat:qmark")
    }
    if p.contains('!') {
        add("pat:bang")
    }
    if p.contains('-') {
        add("pat:dash")
    }
    t
}

/// A literal pattern can be placed in the source of a `case` arm only when it keeps the syntax intact.
fn source_safe(p: &str, extglob: bool) -> bool {
    if p.is_empty() || p.contains('\n') || p.ends_with('\\') {
        return false;
    }
    let cs: Vec<char> = p.chars().collect();
    let mut depth = 0i32;
    let mut i = 0;
    while i < cs.len() {
        match cs[i] {
            '\\' => i += 1,
            '(' => {
                if !(extglob && i > 0 && "?*+@!".contains(cs[i - 1])) {
                    return false;
                }
                depth += 1;
            }
            ')' => {
                depth -= 1;
                if depth < 0 {
                    return false;
                }
            }
            '|' => {
                if depth == 0 {
                    return false;
                }
            }
            _ => {}
        }
        i += 1;
    }
    depth == 0
}

struct Cfg {
    extglob: bool,
    nocase: bool,
}
impl Cfg {
    fn prelude(&self) -> String {
        format!("shopt -{} extglob; shopt -{} nocasematch\n", if self.extglob { "s" } else { "u" }, if self.nocase { "s" } else { "u" })
    }
    fn name(&self) -> String {
        format!("extglob={} nocasematch={}", self.extglob, self.nocase)
    }
}

const LOOP_CASE: &str = "for p in \"${P[@]}\"; do r=; for s in \"${S[@]}\"; do case $s in $p) r+=1;; *) r+=0;; esac; done; echo \"$r\"; done\n";
const LOOP_TEST: &str = "for p in \"${P[@]}\"; do r=; for s in \"${S[@]}\"; do if [[ $s == $p ]]; then r+=1; else r+=0; fi; done; echo \"$r\"; done\n";
const LOOP_QUOTED: &str = "for p in \"${P[@]}\"; do r=; for s in \"${S[@]}\"; do case $s in \"$p\") r+=1;; *) r+=0;; esac; if [[ $s == \"$p\" ]]; then r+=1; else r+=0; fi; done; echo \"$r\"; done\n";

fn rows(out: &str, n: usize) -> Vec<String> {
    let mut v: Vec<String> = out.lines().map(|l| l.to_string()).collect();
    v.resize(n, String::new());
    v
}

pub fn run(tier: Tier, _replay: Option<Value>) -> ! {
    let mut rep = Report::new("C08", tier, "exploration");
    let plen = tier.pick(3, 4);
    // an extglob opener without a closing parenthesis has no defined meaning (bash itself is erratic on
    // `**(`): such patterns are left out of the comparison
    let unterminated = |p: &str| -> bool {
        let cs: Vec<char> = p.chars().collect();
        (0..cs.len().saturating_sub(1)).any(|i| "?*+@!".contains(cs[i]) && cs[i + 1] == '(' && !cs[i + 2..].contains(&')'))
    };
    let mut patterns: Vec<String> = enumerate::strings(SP, plen).into_iter().filter(|p| !unterminated(p)).collect();
    let mut subjects = enumerate::strings(SS, 3);
    // bracket expressions as units: every pair of bracket expressions over 11 member lists (escaped
    // backslash and escaped `]` as last member, negations, a range, a class, a leading `]`, `-`), adjacent,
    // separated by a literal, and next to `*` — what one expression contains must not change how the next
    // one is read
    let members = ["a", "\\\\", "a\\\\", "\\]", "!a", "^b", "a-b", "[:alpha:]", "]a", "-", "b\\\\-"];
    for m1 in members {
        for m2 in members {
            patterns.push(format!("[{m1}][{m2}]"));
            patterns.push(format!("[{m1}]b[{m2}]"));
        }
        patterns.push(format!("[{m1}]*"));
        patterns.push(format!("*[{m1}]"));
        patterns.push(format!("[{m1}]*[{m1}]"));
    }
    for extra in ["\\", "\\a", "\\b", "a\\", "[a]", "\\[a]", "[", "a[", "\\]", "ab\\", "\\ba"] {
        subjects.push(extra.to_string());
    }
    let cfgs: Vec<Cfg> = match tier {
        Tier::Quick => vec![Cfg { extglob: false, nocase: false }, Cfg { extglob: true, nocase: false }, Cfg { extglob: true, nocase: true }],
        Tier::Thorough => vec![Cfg { extglob: false, nocase: false }, Cfg { extglob: true, nocase: false }, Cfg { extglob: true, nocase: true }, Cfg { extglob: false, nocase: true }],
    };
    let chunk = 40usize;
    let s_arr = bash_array("S", &subjects);
    let mut model_agree = 0u64;
    let mut model_disagree = 0u64;
    let mut model_bad_examples: Vec<Value> = vec![];
    for cfg in &cfgs {
        for (form, body) in [("case", LOOP_CASE), ("[[", LOOP_TEST), ("quoted", LOOP_QUOTED)] {
            if form == "quoted" && cfg.nocase {
                continue;
            }
            let chunks: Vec<&[String]> = patterns.chunks(chunk).collect();
            let brush_cases: Vec<Value> = chunks.iter().map(|c| json!({"s": format!("{}{}", cfg.prelude(), body), "arrays": {"S": subjects, "P": c}})).collect();
            let brush = common::run_scripts(&brush_cases, 120_000);
            let bash_scripts: Vec<String> = chunks.iter().map(|c| format!("{}{}{}{}", cfg.prelude(), s_arr, bash_array("P", c), body)).collect();
            let bashr = if form == "quoted" { vec![] } else { bash::run_files(bash::BASH, &bash_scripts, 120_000) };
            for (ci, c) in chunks.iter().enumerate() {
                let b = &brush[ci];
                let brows = rows(&b.out, c.len());
                let orows: Vec<String> = if form == "quoted" {
                    c.iter().map(|p| subjects.iter().map(|s| if s == p { "11" } else { "00" }).collect::<String>()).collect()
                } else {
                    rows(&bashr[ci].out_str(), c.len())
                };
                for (pi, p) in c.iter().enumerate() {
                    rep.evaluations += subjects.len() as u64;
                    let case_desc = format!("{form} pattern={:?} [{}]", p, cfg.name());
                    if let Some(cr) = &b.crash {
                        rep.fail(Failure { case: case_desc.clone(), tags: vec!["crash".into(), "chunk".into()], expected: orows[pi].clone(), observed: format!("CRASH {cr}"), oracle: "no-crash".into() });
                        continue;
                    }
                    rep.observe(&brows[pi]);
                    if brows[pi].contains('1') && brows[pi].contains('0') {
                        rep.nontrivial.insert(format!("{form}|{p}|{}", cfg.name()));
                    }
                    if form != "quoted" {
                        // validate the reference matcher against bash on the same row
                        let mrow: String = subjects.iter().map(|s| if globref::match_str(p, s, cfg.extglob, cfg.nocase) { '1' } else { '0' }).collect();
                        if mrow == orows[pi] {
                            model_agree += 1;
                        } else {
                            model_disagree += 1;
                            if model_bad_examples.len() < 10 {
                                model_bad_examples.push(json!({"pattern": p, "cfg": cfg.name(), "form": form, "model": mrow, "bash": orows[pi]}));
                            }
                        }
                    }
                    if brows[pi] != orows[pi] {
                        let mut tags = pattern_tags(p);
                        tags.push(format!("form:{form}"));
                        if cfg.nocase {
                            tags.push("nocasematch".into());
                        }
                        // which subjects differ
                        let diff: Vec<&String> = if brows[pi].len() == orows[pi].len() && form != "quoted" {
                            subjects.iter().zip(brows[pi].chars().zip(orows[pi].chars())).filter(|(_, (a, b))| a != b).map(|(s, _)| s).collect()
                        } else {
                            vec![]
                        };
                        if !diff.is_empty() && diff.iter().all(|s| s.contains('\n')) {
                            tags.push("subj:newline-only".into());
                        }
                        if !diff.is_empty() && diff.iter().all(|s| s.contains('é')) {
                            tags.push("subj:multibyte-only".into());
                        }
                        if brows[pi].is_empty() {
                            tags.push("no-output".into());
                        }
                        rep.fail(Failure {
                            case: case_desc,
                            tags,
                            expected: format!("{} (differs on subjects {:?})", orows[pi], diff.iter().take(4).collect::<Vec<_>>()),
                            observed: brows[pi].clone(),
                            oracle: if form == "quoted" { "identity".into() } else { "bash".into() },
                        });
                    }
                }
            }
        }
        // literal patterns in the source
        let lits: Vec<&String> = patterns.iter().filter(|p| source_safe(p, cfg.extglob)).collect();
        let mk = |ps: &[&String]| -> String {
            let mut s = cfg.prelude();
            for p in ps {
                s.push_str(&format!("r=; for s in \"${{S[@]}}\"; do case $s in {p}) r+=1;; *) r+=0;; esac; if [[ $s == {p} ]]; then r+=1; else r+=0; fi; done; echo \"$r\"\n"));
            }
            s
        };
        let chunks: Vec<&[&String]> = lits.chunks(chunk).collect();
        let brush_cases: Vec<Value> = chunks.iter().map(|c| json!({"s": mk(c), "arrays": {"S": subjects}})).collect();
        let brush = common::run_scripts(&brush_cases, 120_000);
        let bash_scripts: Vec<String> = chunks.iter().map(|c| format!("{}{}", s_arr, mk(c))).collect();
        let bashr = bash::run_files(bash::BASH, &bash_scripts, 120_000);
        for (ci, c) in chunks.iter().enumerate() {
            // a chunk whose source bash rejects is re-run pattern by pattern
            let whole_ok = bashr[ci].status == 0 && bashr[ci].out_str().lines().count() == c.len() && bashr[ci].out_str().lines().all(|l| !l.is_empty()) && brush[ci].crash.is_none() && brush[ci].out.lines().count() == c.len();
            let (brows, orows, ps): (Vec<String>, Vec<String>, Vec<&String>) = if whole_ok {
                (rows(&brush[ci].out, c.len()), rows(&bashr[ci].out_str(), c.len()), c.to_vec())
            } else {
                let singles: Vec<Value> = c.iter().map(|p| json!({"s": mk(&[*p]), "arrays": {"S": subjects}})).collect();
                let b1 = common::run_scripts(&singles, 60_000);
                let s1: Vec<String> = c.iter().map(|p| format!("{}{}", s_arr, mk(&[*p]))).collect();
                let o1 = bash::run_files(bash::BASH, &s1, 60_000);
                let mut br = vec![];
                let mut or = vec![];
                let mut ps = vec![];
                for (k, p) in c.iter().enumerate() {
                    if o1[k].status != 0 || o1[k].out_str().lines().next().unwrap_or("").is_empty() {
                        rep.add("literal_patterns_rejected_by_bash", 1);
                        continue;
                    }
                    br.push(if let Some(cr) = &b1[k].crash { format!("CRASH {cr}") } else { b1[k].out.lines().next().unwrap_or("").to_string() });
                    or.push(o1[k].out_str().lines().next().unwrap_or("").to_string());
                    ps.push(*p);
                }
                (br, or, ps)
            };
            for (k, p) in ps.iter().enumerate() {
                rep.evaluations += 2 * subjects.len() as u64;
                rep.observe(&brows[k]);
                if brows[k] != orows[k] {
                    let mut tags = pattern_tags(p);
                    tags.push("form:literal".into());
                    if cfg.nocase {
                        tags.push("nocasematch".into());
                    }
                    let diff: Vec<&String> = if brows[k].len() == orows[k].len() {
                        subjects.iter().zip(brows[k].as_bytes().chunks(2).zip(orows[k].as_bytes().chunks(2))).filter(|(_, (a, b))| a != b).map(|(s, _)| s).collect()
                    } else {
                        vec![]
                    };
                    if !diff.is_empty() && diff.iter().all(|s| s.contains('\n')) {
                        tags.push("subj:newline-only".into());
                    }
                    rep.fail(Failure {
                        case: format!("literal pattern={:?} [{}]", p, cfg.name()),
                        tags,
                        expected: format!("{} (differs on subjects {:?})", orows[k], diff.iter().take(4).collect::<Vec<_>>()),
                        observed: brows[k].clone(),
                        oracle: "bash".into(),
                    });
                }
            }
        }
    }
    rep.set("patterns", patterns.len() as u64);
    rep.set("subjects", subjects.len() as u64);
    rep.set("reference_matcher_rows_agreeing_with_bash", model_agree);
    rep.set("reference_matcher_rows_disagreeing_with_bash", model_disagree);
    rep.set("reference_matcher_disagreements", model_bad_examples);

    // ---- pathname expansion
    let names = ["a", "b", "ab", ".a", ".b", "a b", "A", "-"];
    let mut trees: Vec<Vec<&str>> = vec![vec![]];
    for i in 0..names.len() {
        trees.push(vec![names[i]]);
        for j in (i + 1)..names.len() {
            trees.push(vec![names[i], names[j]]);
            if tier == Tier::Thorough {
                for k in (j + 1)..names.len() {
                    trees.push(vec![names[i], names[j], names[k]]);
                }
            }
        }
    }
    // patterns starting with `/` would walk the real root directory: outside the scratch tree
    let gp: Vec<String> = enumerate::strings(&["a", "b", "*", "?", "[", "]", ".", "!", "/"], 3).into_iter().filter(|p| !p.starts_with('/')).collect();
    let gopts: Vec<(bool, bool)> = match tier {
        Tier::Quick => vec![(false, false), (true, false), (false, true)],
        Tier::Thorough => vec![(false, false), (true, false), (false, true), (true, true)],
    };
    let glob_body = "IFS=; for p in \"${P[@]}\"; do set -- $p; vargs \"$@\"; done\n";
    let mut gcases: Vec<(Vec<&str>, bool, bool)> = vec![];
    for t in &trees {
        for (dg, ng) in &gopts {
            gcases.push((t.clone(), *dg, *ng));
        }
    }
    let mk_files = |t: &Vec<&str>| -> Vec<(String, String)> {
        let mut f: Vec<(String, String)> = t.iter().map(|n| (n.to_string(), String::new())).collect();
        f.push(("d/a".into(), String::new()));
        f.push(("d/.h".into(), String::new()));
        f
    };
    let brush_cases: Vec<Value> = gcases
        .iter()
        .map(|(t, dg, ng)| {
            let files: serde_json::Map<String, Value> = mk_files(t).into_iter().map(|(k, v)| (k, Value::String(v))).collect();
            json!({"s": format!("shopt -{} dotglob; shopt -{} nullglob\n{glob_body}", if *dg {"s"} else {"u"}, if *ng {"s"} else {"u"}), "arrays": {"P": gp}, "files": files})
        })
        .collect();
    let gb = common::run_scripts(&brush_cases, 120_000);
    let p_arr = bash_array("P", &gp);
    let specs: Vec<crate::engine::procs::ProcSpec> = gcases
        .iter()
        .map(|(t, dg, ng)| {
            let mut sp = bash::spec_file(
                bash::BASH,
                &format!("{}shopt -{} dotglob; shopt -{} nullglob\n{p_arr}mkdir -p w && cd w || exit 9\n{}{glob_body}", bash::BASH_VARGS, if *dg { "s" } else { "u" }, if *ng { "s" } else { "u" }, mk_files(t).iter().map(|(n, _)| format!("mkdir -p \"$(dirname {0})\"; : > {0}\n", bash::sq(n))).collect::<String>()),
                120_000,
            );
            sp.env.push(("PATH".into(), "/usr/bin:/bin".into()));
            sp
        })
        .collect();
    let go = crate::engine::procs::run_many(&specs, bash::procs_par());
    for (i, (t, dg, ng)) in gcases.iter().enumerate() {
        let desc = format!("tree={:?}+d/a,d/.h dotglob={dg} nullglob={ng}", t);
        if let Some(cr) = &gb[i].crash {
            rep.fail(Failure { case: desc, tags: vec!["glob".into(), "crash".into()], expected: "".into(), observed: format!("CRASH {cr}"), oracle: "no-crash".into() });
            continue;
        }
        let br: Vec<&str> = gb[i].out.split_terminator("\0\n").collect();
        let bo_s = go[i].out_str();
        let bo: Vec<&str> = bo_s.split_terminator("\0\n").collect();
        for (k, p) in gp.iter().enumerate() {
            rep.evaluations += 1;
            let a = br.get(k).copied().unwrap_or("<missing>");
            let b = bo.get(k).copied().unwrap_or("<missing>");
            rep.observe(a);
            if a.contains('\0') && !a.starts_with("1\0") {
                rep.nontrivial.insert(format!("glob|{p}|{:?}|{dg}{ng}", t));
            }
            if a != b {
                let mut tags = vec!["glob".to_string()];
                if p.contains('/') {
                    tags.push("glob:slash".into());
                }
                if p.starts_with('.') || p.contains("/.") {
                    tags.push("glob:leading-dot".into());
                }
                if p.contains('[') {
                    tags.push("pat:bracket".into());
                }
                if *dg {
                    tags.push("dotglob".into());
                }
                if *ng {
                    tags.push("nullglob".into());
                }
                rep.fail(Failure { case: format!("glob pattern={:?} {desc}", p), tags, expected: b.replace('\0', "␀"), observed: a.replace('\0', "␀"), oracle: "bash".into() });
            }
        }
    }
    // ---- glob words written in the source, mixing unquoted glob characters with quoted / escaped
    //      segments (the dot-file rule looks at the *component*, whatever its quoting)
    {
        let pieces = ["*", "?", "[ab.]", "a", ".", "\".a\"", "'.'", "\\.", "\"a\"", "\\*", "d/"];
        let words: Vec<String> = enumerate::strings(&pieces, tier.pick(3, 4)).into_iter().filter(|w| !w.is_empty() && !w.starts_with("d/d/")).collect();
        let mut words = words;
        // path words of two and three COMPONENTS, each component from a set with and without a leading dot:
        // whether a component may match dot-files is decided per component, by that component alone
        let comps = ["*", ".*", ".d*", "d*", "?", ".?", "[.d]*", "s", ".d"];
        for c1 in comps {
            for c2 in comps {
                words.push(format!("{c1}/{c2}"));
                if tier == Tier::Thorough || (c1.starts_with('.') != c2.starts_with('.')) {
                    for c3 in ["*", ".*", "?"] {
                        words.push(format!("{c1}/{c2}/{c3}"));
                    }
                }
            }
        }
        let qtrees: Vec<Vec<&str>> = vec![
            vec!["a", ".a", "a.a", ".a.a", "b", "d/.a", "d/a.a", "d/..a"],
            vec![".a"],
            vec!["a.a", "d/a"],
            vec![".d/.h", ".d/v", "d/.h", "d/v", ".d/s/.k", ".d/s/w", "d/s/.k", "d/s/w", "d/.s/w", "v", ".h"],
        ];
        let mut body = String::new();
        for (k, w) in words.iter().enumerate() {
            body.push_str(&format!("echo \"#{k}\"\nvargs {w}\n"));
        }
        body.push_str("echo \"#E\"\n");
        let mut qcases = vec![];
        for t in &qtrees {
            for dg in [false, true] {
                qcases.push((t.clone(), dg));
            }
        }
        let bc: Vec<Value> = qcases
            .iter()
            .map(|(t, dg)| {
                let files: serde_json::Map<String, Value> = t.iter().map(|n| (n.to_string(), Value::String(String::new()))).collect();
                json!({"s": format!("shopt -{} dotglob\n{body}", if *dg {"s"} else {"u"}), "files": files})
            })
            .collect();
        let qb = common::run_scripts(&bc, 120_000);
        let qspecs: Vec<crate::engine::procs::ProcSpec> = qcases
            .iter()
            .map(|(t, dg)| {
                let mk: String = t.iter().map(|n| format!("mkdir -p \"$(dirname {0})\"; : > {0}\n", bash::sq(n))).collect();
                let mut sp = bash::spec_file(bash::BASH, &format!("{}shopt -{} dotglob\nmkdir -p w && cd w || exit 9\n{mk}{body}", bash::BASH_VARGS, if *dg { "s" } else { "u" }), 120_000);
                sp.env.push(("PATH".into(), "/usr/bin:/bin".into()));
                sp
            })
            .collect();
        let qo = crate::engine::procs::run_many(&qspecs, bash::procs_par());
        let split = |out: &str| -> Vec<String> {
            let mut v = vec![];
            let mut cur = String::new();
            let mut started = false;
            for line in out.split_inclusive('\n') {
                let is_marker = line.starts_with('#') && line.ends_with('\n') && line.len() > 2 && (line[1..line.len() - 1].chars().all(|c| c.is_ascii_digit()) || line == "#E\n");
                if is_marker {
                    if started {
                        v.push(std::mem::take(&mut cur));
                    }
                    started = true;
                } else {
                    cur.push_str(line);
                }
            }
            v
        };
        for (i, (t, dg)) in qcases.iter().enumerate() {
            let a = if qb[i].crash.is_some() { vec![] } else { split(&qb[i].out) };
            let b = split(&qo[i].out_str());
            if b.len() != words.len() {
                crate::engine::report::machinery_fail(&format!("bash produced {} sections for {} quoted glob words", b.len(), words.len()));
            }
            for (k, w) in words.iter().enumerate() {
                rep.evaluations += 1;
                let got = a.get(k).cloned().unwrap_or_else(|| qb[i].crash.clone().unwrap_or_else(|| "<missing>".into()));
                if got.matches('\0').count() > 2 {
                    rep.nontrivial.insert(format!("qglob|{w}|{i}"));
                }
                if got != b[k] {
                    let mut tags = vec!["glob".to_string(), "glob:quoted-segments".to_string()];
                    if w.contains('"') || w.contains('\'') {
                        tags.push("glob:quoted".into());
                    }
                    if w.contains('\\') {
                        tags.push("glob:escaped".into());
                    }
                    if w.contains('[') {
                        tags.push("pat:bracket".into());
                    }
                    if w.contains("d/") {
                        tags.push("glob:slash".into());
                    }
                    if *dg {
                        tags.push("dotglob".into());
                    }
                    rep.fail(Failure { case: format!("glob word={w} tree={:?} dotglob={dg}", t), tags, expected: b[k].replace('\0', "␀"), observed: got.replace('\0', "␀"), oracle: "bash".into() });
                }
            }
        }
        rep.set("quoted_glob_words", words.len() as u64);
    }
    // ---- bracket expressions whose members are partly quoted / escaped IN THE SOURCE: a quoted `]`, `-`, `!`,
    //      `^` or backslash inside `[...]` is an ordinary member, through every pattern context
    {
        let pats = [
            "[a\"]\"]", "[a']']", "[\"]\"a]", "[\"]\"]", "[!\"]\"]", "[a\"]\"b]", "[a\\]]", "[\\]a]", "[!\\]]", "[a\"-\"c]", "[\"a\"-c]", "[\"!\"a]", "[\"^\"a]", "[a\"\\\\\"]", "[a\"$q\"]", "[a$q]", "[\"$q\"]*",
            "*[\"]\"]", "[a\"]\"][b]",
        ];
        let mut scripts = vec![];
        for p in pats {
            let mut sc = String::from("q=']'\nfor s in a ']' b - '!' '^' '\\' 'a]' ']b' '' c 'ab' '[a]'; do\n");
            sc.push_str(&format!("if [[ $s == {p} ]]; then m=1; else m=0; fi\ncase $s in {p}) k=1;; *) k=0;; esac\n"));
            sc.push_str(&format!("echo \"[$s] t=$m c=$k #=[${{s#{p}}}] %=[${{s%{p}}}] /=[${{s/{p}/X}}] //=[${{s//{p}/X}}]\"\ndone\n"));
            sc.push_str(&format!("cd g && vargs {p}\n"));
            scripts.push(sc);
        }
        let files = json!({"g/a": "", "g/]": "", "g/b": "", "g/-": "", "g/!": "", "g/^": "", "g/a]": "", "g/c": ""});
        let jb: Vec<Value> = scripts.iter().map(|s| json!({"s": s, "files": files})).collect();
        let bb = common::run_scripts(&jb, 20_000);
        let specs: Vec<crate::engine::procs::ProcSpec> = scripts
            .iter()
            .map(|sc| {
                let mk = "mkdir -p g; for n in a ']' b - '!' '^' 'a]' c; do : > \"g/$n\"; done\n";
                let mut sp = bash::spec_file(bash::BASH, &format!("{}{mk}{sc}", bash::BASH_VARGS), 20_000);
                sp.env.push(("PATH".into(), "/usr/bin:/bin".into()));
                sp
            })
            .collect();
        let ob = crate::engine::procs::run_many(&specs, bash::procs_par());
        for (i, p) in pats.iter().enumerate() {
            rep.evaluations += 1;
            let want = ob[i].out_str();
            let got = bb[i].crash.clone().map(|c| format!("CRASH {c}")).unwrap_or_else(|| bb[i].out.clone());
            rep.nontrivial.insert(format!("qbracket|{p}"));
            if got != want {
                // one failure per differing line, so that a finding can name the context
                let (gl, wl): (Vec<&str>, Vec<&str>) = (got.lines().collect(), want.lines().collect());
                let k = gl.iter().zip(wl.iter()).position(|(a, b)| a != b).unwrap_or(gl.len().min(wl.len()));
                rep.fail(Failure { case: format!("source pattern {p} (first difference at output line {k})"), tags: vec!["quoted-bracket-member".into(), format!("pat:{p}")], expected: wl.get(k).unwrap_or(&"<eof>").to_string(), observed: gl.get(k).unwrap_or(&"<eof>").replace('\0', "␀"), oracle: "bash".into() });
            }
        }
        rep.set("quoted_bracket_patterns", pats.len() as u64);
    }
    rep.set("glob_trees", trees.len() as u64);
    rep.set("glob_patterns", gp.len() as u64);
    rep.rule = format!(
        "all patterns over {:?} with <= {plen} symbols x all subjects over {:?} with <= 3 symbols, through `case $s in $p)`, `[[ $s == $p ]]`, the pattern literally in the source (when syntactically possible), and quoted (identity oracle), under the listed extglob/nocasematch settings; pathname expansion: all trees of <= {} names from {:?} x all patterns with <= 3 symbols over a 9-symbol alphabet x dotglob/nullglob; source-level glob words of <= 3/4 pieces mixing glob characters with quoted and escaped segments over 3 trees with dot-files; a pattern row is non-trivial when it matches some but not all subjects",
        SP,
        SS,
        tier.pick(2, 3),
        names
    );
    rep.sample(json!({"pattern": "[!a]*", "subjects": subjects.iter().take(8).collect::<Vec<_>>()}));
    rep.sample(json!({"pattern": patterns[patterns.len() / 2], "config": "extglob on"}));
    rep.sample(json!({"glob": "?*", "tree": ["a", ".a", "d/a", "d/.h"]}));
    rep.assumptions.push("bash 5.2.15 under LC_ALL=C.utf8 is the oracle".into());
    rep.finish()
}
