//! Construct corpus shared by C01 (crash freedom) and C19 (highlighting): one minimal text per
//! grammar construct with operand slots `⟦default⟧`, boundary-value substitution, token-level
//! mutation with a deviation bound, and nesting to depth 64. Everything is enumerated, nothing sampled.

use crate::engine::report::Tier;

/// Templates are safe to execute in-process: no `exec`, no `kill`, no `ulimit`, nothing that reads the
/// terminal, and every loop terminates. Slots are written ⟦default⟧.
pub const TEMPLATES: &[&str] = &[
    // lists, pipelines
    "echo ⟦a⟧",
    "echo a; echo ⟦b⟧",
    "true && echo ⟦a⟧ || echo ⟦b⟧",
    "! true; echo $?",
    "echo ⟦a⟧ | vcat",
    "echo ⟦a⟧ |& vcat",
    "echo a | vcat | vcat; echo ${PIPESTATUS[⟦0⟧]}",
    "echo ⟦a⟧ & wait",
    "time echo ⟦a⟧",
    // compound commands
    "if true; then echo ⟦a⟧; elif false; then :; else :; fi",
    "while false; do echo ⟦a⟧; done",
    "until true; do echo ⟦a⟧; done",
    "for i in ⟦1⟧ ⟦2⟧; do echo $i; done",
    "for i; do echo $i; done",
    "for ((i=⟦0⟧;i<⟦2⟧;i++)); do echo $i; done",
    "case ⟦a⟧ in ⟦a⟧) echo 1;; b) echo 2;& c) echo 3;;& *) echo 4;; esac",
    "case ⟦a⟧ in (⟦a⟧|b) echo 1 ;; esac",
    "{ echo ⟦a⟧; }",
    "( echo ⟦a⟧ )",
    "( ( echo ⟦a⟧ ) )",
    "f() { echo ⟦a⟧; }; f ⟦x⟧",
    "function f { return ⟦3⟧; }; f; echo $?",
    "f() ( echo ⟦a⟧ ); f",
    "f() { local x=⟦1⟧; echo $x; }; f",
    "for i in 1 2; do break ⟦1⟧; done",
    "for i in 1 2; do continue ⟦1⟧; done",
    "( exit ⟦3⟧ ); echo $?",
    "select x in a b; do echo $x; done",
    // tests
    "[[ ⟦a⟧ == ⟦a⟧ ]]; echo $?",
    "[[ ⟦a⟧ != ⟦b⟧ && -n ⟦a⟧ || -z ⟦b⟧ ]]; echo $?",
    "[[ ⟦abc⟧ =~ ⟦a(b)c⟧ ]]; echo ${BASH_REMATCH[⟦1⟧]}",
    "[[ ⟦1⟧ -lt ⟦2⟧ ]]; echo $?",
    "[[ -f ⟦a⟧ || -d ⟦.⟧ ]]; echo $?",
    "[[ ⟦a⟧ < ⟦b⟧ ]]; echo $?",
    "[[ -v ⟦x⟧ ]]; echo $?",
    "[ ⟦a⟧ = ⟦a⟧ ]; echo $?",
    "test ⟦1⟧ -eq ⟦1⟧; echo $?",
    "test -⟦f⟧ ⟦x⟧; echo $?",
    "[ ⟦a⟧ -a ⟦b⟧ -o ! ⟦c⟧ ]; echo $?",
    // arithmetic
    "(( ⟦1⟧ + ⟦2⟧ )); echo $?",
    "echo $(( ⟦1⟧ + ⟦2⟧ ))",
    "echo $(( ⟦3⟧ * ⟦2⟧ ))",
    "echo $(( ⟦7⟧ / ⟦2⟧ ))",
    "echo $(( ⟦7⟧ % ⟦2⟧ ))",
    "echo $(( ⟦2⟧ ** ⟦3⟧ ))",
    "echo $(( ⟦1⟧ << ⟦3⟧ ))",
    "echo $(( ⟦8⟧ >> ⟦1⟧ ))",
    "echo $(( -⟦1⟧ )) $(( ~⟦1⟧ )) $(( !⟦1⟧ ))",
    "echo $(( ⟦1⟧ ? ⟦2⟧ : ⟦3⟧ ))",
    "echo $(( ⟦16⟧#⟦ff⟧ ))",
    "echo $(( 0x⟦ff⟧ )) $(( 0⟦17⟧ ))",
    "x=⟦5⟧; echo $(( x++ + ++x )) $x",
    "x=⟦5⟧; echo $(( x += ⟦2⟧ )) $(( x <<= ⟦1⟧ )) $(( x **= 2 ))",
    "x=⟦5⟧; (( x -= ⟦9⟧ )); echo $x",
    "let x=⟦1⟧+⟦2⟧; echo $x",
    "echo $(( ⟦1⟧, ⟦2⟧ ))",
    "echo $[ ⟦1⟧ + ⟦2⟧ ]",
    // parameter expansion
    "x=abc; echo ${x:⟦1⟧:⟦2⟧}",
    "x=abc; echo ${x:⟦1⟧}",
    "x=abc; echo ${x: -⟦1⟧}",
    "x=abc; echo ${x:-⟦d⟧} ${y:-⟦d⟧} ${y-⟦d⟧}",
    "echo ${y:=⟦d⟧} $y",
    "( echo ${y:?⟦msg⟧} )",
    "x=abc; echo ${x:+⟦d⟧} ${x+⟦d⟧}",
    "x=⟦abc⟧; echo ${#x}",
    "x=abcabc; echo ${x#⟦a*⟧} ${x##⟦a*⟧} ${x%⟦b*⟧} ${x%%⟦b*⟧}",
    "x=abcabc; echo ${x/⟦b⟧/⟦X⟧} ${x//⟦b⟧/⟦X⟧} ${x/#⟦a⟧/⟦X⟧} ${x/%⟦c⟧/⟦X⟧}",
    "x=⟦abc⟧; echo ${x^} ${x^^} ${x,} ${x,,} ${x^⟦a⟧} ${x~} ${x~~}",
    "x=⟦abc⟧; echo ${x@Q} ${x@U} ${x@L} ${x@u} ${x@E} ${x@A} ${x@a} ${x@P} ${x@K} ${x@k}",
    "x=y; y=⟦z⟧; echo ${!x}",
    "xa=1; xb=2; echo ${!x*} ${!x@}",
    "a=(⟦1⟧ 2 3); echo ${a[@]} ${a[*]} ${#a[@]} ${!a[@]} ${a[⟦0⟧]} ${a[-⟦1⟧]}",
    "a=(1 2 3); echo ${a[@]:⟦1⟧:⟦1⟧} ${a[@]: -⟦1⟧}",
    "a=(1 2 3); a[⟦5⟧]=x; a+=(⟦y⟧); unset 'a[⟦0⟧]'; echo ${a[@]}",
    "a=([⟦2⟧]=x [⟦0⟧]=y); echo ${a[@]}",
    "declare -A m; m[⟦k⟧]=⟦v⟧; echo ${m[⟦k⟧]} ${!m[@]} ${#m[@]}",
    "declare -A m=([⟦a⟧]=1 [⟦b⟧]=2); echo ${m[@]}",
    "set -- a b c; echo ${@:⟦1⟧:⟦2⟧} ${*:⟦2⟧} $# $⟦1⟧ ${⟦3⟧} ${⟦10⟧}",
    "set -- a b c; shift ⟦1⟧; echo $@",
    "x=abc; echo ${x:⟦1+1⟧:⟦2-1⟧}",
    "a=(a b c); echo ${a[@]/⟦a⟧/⟦X⟧} ${a[@]#⟦a⟧} ${a[@]^^} ${#a[⟦1⟧]}",
    // special parameters and variables
    "echo $? $# $- $0 ${#@} $_",
    "echo $RANDOM $SECONDS $LINENO $BASHPID $EPOCHSECONDS $SRANDOM >/dev/null; echo ok",
    "echo ${BASH_VERSINFO[⟦0⟧]} ${FUNCNAME[⟦0⟧]} ${BASH_SOURCE[⟦0⟧]} ${DIRSTACK[⟦0⟧]} ${BASH_LINENO[⟦0⟧]}",
    "RANDOM=⟦1⟧; SECONDS=⟦1⟧; OPTIND=⟦1⟧; echo ok",
    "IFS=⟦:⟧; x=a:b; echo $x",
    "HISTSIZE=⟦1⟧; COLUMNS=⟦80⟧; LINES=⟦24⟧; echo ok",
    "PS4=⟦+⟧; set -x; echo a; set +x",
    "PS4='⟦+⟧$(echo x) '; set -x; echo hi; set +x",
    "trap '⟦echo e⟧' ERR; trap '⟦false⟧; echo d' DEBUG; echo hi; trap - DEBUG",
    "trap 'echo d' DEBUG; trap '⟦false⟧; echo e' ERR; false; trap - DEBUG ERR",
    "trap '⟦false⟧; echo t' ERR EXIT; f() { ⟦false⟧; }; f",
    "trap 'trap \"echo in\" ⟦EXIT⟧; ⟦false⟧' ⟦ERR⟧; false",
    // quoting and substitutions
    "echo \"⟦a⟧\" '⟦a⟧' $'⟦\\x41⟧' $\"⟦a⟧\"",
    "echo $'\\u⟦00e9⟧ \\U⟦0001F600⟧ \\⟦101⟧ \\c⟦a⟧ \\x⟦41⟧'",
    "echo `echo ⟦a⟧` $(echo ⟦a⟧) \"$(echo ⟦a⟧)\"",
    "echo $(echo $(echo ⟦a⟧))",
    "echo \\⟦a⟧ a\\ b",
    "x=⟦a⟧ y=⟦b⟧ venv x y",
    // brace and tilde
    "echo {⟦1⟧..⟦3⟧}",
    "echo {⟦1⟧..⟦7⟧..⟦2⟧}",
    "echo {a,⟦b⟧,c}{1,2}",
    "echo {⟦a⟧..⟦e⟧}",
    "echo {⟦01⟧..⟦10⟧}",
    "echo {⟦a⟧..⟦e⟧..⟦2⟧}",
    "echo {⟦e⟧..⟦a⟧..⟦-2⟧} {⟦-5⟧..⟦-9⟧..⟦2⟧}",
    "echo ~ ~/⟦a⟧ ~+ ~- ~⟦root⟧ ~⟦1⟧ ~+⟦1⟧ ~-⟦1⟧",
    "x=~/⟦a⟧:~/b; echo $x",
    // globbing
    "echo * ?⟦a⟧ [⟦a-z⟧]* [!⟦a⟧]* [[:⟦alpha⟧:]]*",
    "shopt -s extglob; echo @(⟦a⟧|b) !(⟦a⟧) *(⟦a⟧) +(⟦a⟧) ?(⟦a⟧)",
    "shopt -s extglob; case ⟦a⟧ in @(⟦a⟧|b)) echo 1;; !(c)) echo 2;; esac",
    "shopt -s globstar nullglob dotglob; echo ** ⟦a⟧*",
    // redirections
    "echo a >⟦f⟧; vcat <⟦f⟧",
    "echo a >>⟦f⟧; echo b >|⟦f⟧; vcat <>⟦f⟧",
    "echo a ⟦2⟧>&⟦1⟧",
    "echo a ⟦3⟧>f ⟦3⟧>&-",
    "echo a &>⟦f⟧; echo b &>>⟦f⟧",
    "vcat <<<⟦a⟧",
    "vcat <<⟦EOF⟧\na $x\n⟦EOF⟧\n",
    "vcat <<-'EOF'\n\ta ⟦$x⟧\n\tEOF\n",
    "vcat <<EOF1 <<EOF2\na\nEOF1\n⟦b⟧\nEOF2\n",
    "echo a ⟦9⟧>f; echo b ⟦0⟧<f",
    "exec ⟦3⟧>f; echo a >&⟦3⟧; exec ⟦3⟧>&-",
    "{ echo a; } >⟦f⟧ 2>&1",
    "vcat <(echo ⟦a⟧); echo b > >(vcat)",
    "echo a {fd}>⟦f⟧; echo $fd >/dev/null",
    "echo a >&⟦2⟧; echo b <&⟦0⟧",
    // builtins with operands
    "printf '%⟦5⟧d|%-⟦5⟧s|%.⟦2⟧f\\n' ⟦1⟧ ⟦a⟧ ⟦1⟧",
    "printf '%*d|%.*s\\n' ⟦3⟧ 1 ⟦2⟧ abc",
    "printf '%s %b %q %c %x %o %u %e %i\\n' ⟦a⟧ ⟦\\\\x41⟧ ⟦a b⟧ ⟦a⟧ ⟦255⟧ ⟦8⟧ ⟦1⟧ ⟦1⟧ ⟦1⟧",
    "printf '%(%Y)T\\n' ⟦0⟧",
    "printf -v ⟦x⟧ '%s' ⟦a⟧; echo $x",
    "printf '%⟦1⟧$s\\n' a",
    "printf ⟦%s⟧ a",
    "printf '⟦\\c⟧%s' a b; printf '%s⟦\\c⟧x' a b; printf '%b' '⟦a\\cb⟧' c",
    "printf '%⟦*⟧s|' ⟦3⟧ ⟦a⟧ ⟦b⟧",
    "read -t ⟦1⟧ x </dev/null; echo $?",
    "read -n ⟦1⟧ x <<<abc; echo $x",
    "read -N ⟦1⟧ x <<<abc; echo $x",
    "read -d ⟦b⟧ x <<<abc; echo $x",
    "read -u ⟦0⟧ x <<<abc; echo $x",
    "read -r -a a <<<⟦'a b'⟧; echo ${a[1]}",
    "read -p ⟦p⟧ x <<<a; echo $x",
    "IFS=⟦:⟧ read a b <<<⟦x:y:z⟧; echo $a $b",
    "declare -i x=⟦1⟧; x+=⟦1⟧; echo $x",
    "declare -l x=⟦AbC⟧; declare -u y=⟦AbC⟧; declare -c z=⟦abc⟧; echo $x $y $z",
    "x=⟦a⟧; x+=⟦b⟧; echo $x",
    "export x=⟦a⟧; readonly y=⟦b⟧; declare -p x y",
    "declare -a a=(⟦1⟧); declare -A m=([⟦k⟧]=1); declare -p a m",
    "declare -n r=⟦x⟧; x=1; echo $r",
    "unset ⟦x⟧; unset -v ⟦x⟧; unset -f ⟦f⟧; echo $?",
    "set -- ⟦a⟧; set -o ⟦errexit⟧; set +o ⟦errexit⟧; set -⟦u⟧; set +⟦u⟧; echo $1",
    "shopt -s ⟦extglob⟧; shopt -u ⟦extglob⟧; shopt -q ⟦extglob⟧; echo $?",
    "alias ⟦a⟧=⟦b⟧; alias; unalias ⟦a⟧",
    "shopt -s expand_aliases\nalias e=⟦'echo a'⟧ f=⟦'e '⟧\ne ⟦b⟧\nf e",
    "trap '⟦:⟧' ⟦EXIT⟧; trap -p; trap - ⟦EXIT⟧",
    "trap ⟦:⟧ ⟦0⟧ ⟦2⟧; trap",
    "wait ⟦1⟧; echo $?",
    "wait %⟦1⟧; jobs; echo $?",
    "( umask ⟦022⟧; umask; umask -S )",
    "getopts ⟦ab:⟧ o ⟦-a⟧; echo $o $OPTIND",
    "mapfile -n ⟦1⟧ -s ⟦0⟧ -O ⟦0⟧ -t a <<<$'x\\ny'; echo ${a[@]}",
    "mapfile -d ⟦x⟧ -c ⟦1⟧ -C ⟦:⟧ a <<<axb; echo ${#a[@]}",
    "mapfile -O ⟦0⟧ a <<<$'x\\ny'; echo ${#a[@]}",
    "a=([⟦1⟧]=x y); a[⟦2⟧]=z; a+=(w); echo ${!a[@]}",
    "history ⟦1⟧; echo $?",
    "pushd ⟦.⟧ >/dev/null; popd +⟦0⟧ >/dev/null; dirs +⟦0⟧; dirs -⟦0⟧",
    "cd ⟦.⟧; pwd >/dev/null; cd -⟦P⟧ .; echo $?",
    "echo -e ⟦\\\\x41\\\\0101\\\\u00e9⟧ -n; echo -E ⟦a⟧",
    "type ⟦echo⟧; type -t ⟦if⟧; command -v ⟦echo⟧; command -V ⟦vcat⟧; hash; echo $?",
    "eval ⟦echo a⟧; eval \"⟦echo⟧ b\"",
    "source ⟦/dev/null⟧ ⟦a⟧; . ⟦/dev/null⟧; echo $?",
    "times >/dev/null; caller ⟦0⟧; echo $?",
    "compgen -W ⟦'a b'⟧ ⟦a⟧; compgen -⟦b⟧ ec >/dev/null; complete -W ⟦x⟧ ⟦c⟧; complete -p",
    "enable -n ⟦true⟧; enable ⟦true⟧; enable -a >/dev/null; echo $?",
    "builtin ⟦echo⟧ a; command ⟦echo⟧ b",
    "let ⟦1+1⟧ ⟦0⟧; echo $?",
    "true ⟦a⟧; false ⟦a⟧; : ⟦a⟧; echo $?",
    "help ⟦echo⟧ >/dev/null; echo $?",
    "return ⟦1⟧; echo $?",
    "local ⟦x⟧=1; echo $?",
    "fc -l ⟦1⟧; echo $?",
    "ulimit -⟦n⟧ >/dev/null; echo $?",
    "bind -⟦l⟧ >/dev/null 2>&1; echo $?",
    // prompt expansion
    "x='⟦\\u@\\h \\w \\W \\$ \\s \\v \\V⟧'; echo \"${x@P}\" >/dev/null; echo ok",
    "x='\\D{⟦%Y⟧} \\t \\T \\@ \\A \\d'; echo \"${x@P}\" >/dev/null; echo ok",
    "x='\\[\\e[⟦0⟧m\\] \\⟦033⟧ \\n \\r \\a \\! \\# \\j \\l \\\\'; echo \"${x@P}\" >/dev/null; echo ok",
    "x='$(echo ⟦a⟧) ${y:-⟦b⟧} `echo c`'; echo \"${x@P}\"",
    // comments, continuation, misc syntax
    "echo a # ⟦comment⟧\necho b",
    "echo a \\\n ⟦b⟧",
    "echo a;\n\n\necho ⟦b⟧\n",
    "x=⟦1⟧ y=$x; echo $y",
    "x=(⟦a⟧ b) y=⟦c⟧; echo ${x[1]} $y",
    "coproc { echo ⟦a⟧; }; wait",
    "f() { echo $FUNCNAME ${#FUNCNAME[@]}; }; g() { f; }; g ⟦a⟧",
];

pub const BOUNDARY: &[&str] = &[
    "",
    "0",
    "-1",
    "9223372036854775807",
    "-9223372036854775808",
    "9223372036854775808",
    "99999999999999999999",
    "é",
    "😀",
    "$'\\0'",
    "4294967296",
    "1e9",
    "0x",
    "-",
    "*",
    "18446744073709551615",
    "65536",
    "''",
    "4294967295",
    "2147483647",
];

pub fn long_word(tier: Tier) -> String {
    "a".repeat(tier.pick(20_000, 100_000))
}

/// Splits a template into literal segments and slot defaults.
pub fn parse_template(t: &str) -> (Vec<String>, Vec<String>) {
    let mut lits = vec![];
    let mut slots = vec![];
    let mut rest = t;
    loop {
        match rest.find('⟦') {
            Some(i) => {
                lits.push(rest[..i].to_string());
                let after = &rest[i + '⟦'.len_utf8()..];
                let j = after.find('⟧').expect("unterminated slot");
                slots.push(after[..j].to_string());
                rest = &after[j + '⟧'.len_utf8()..];
            }
            None => {
                lits.push(rest.to_string());
                break;
            }
        }
    }
    (lits, slots)
}

pub fn render(lits: &[String], fills: &[&str]) -> String {
    let mut s = String::new();
    for (i, l) in lits.iter().enumerate() {
        s.push_str(l);
        if i < fills.len() {
            s.push_str(fills[i]);
        }
    }
    s
}

pub fn default_render(t: &str) -> String {
    let (l, s) = parse_template(t);
    let f: Vec<&str> = s.iter().map(|x| x.as_str()).collect();
    render(&l, &f)
}

#[derive(Clone, Debug)]
pub struct CorpusCase {
    pub text: String,
    /// descriptor: "tmpl:<idx>" + "sub:<slot>=<boundary idx>" / "mut:<kind>@<pos>" / "nest:<a>,<b>x<depth>"
    pub tags: Vec<String>,
}

/// (b) every template with defaults, all single and all pairwise boundary substitutions.
pub fn substitutions(tier: Tier) -> Vec<CorpusCase> {
    let long = long_word(tier);
    let mut vals: Vec<&str> = BOUNDARY.to_vec();
    vals.push(&long);
    let mut out = vec![];
    for (ti, t) in TEMPLATES.iter().enumerate() {
        let (lits, slots) = parse_template(t);
        let defaults: Vec<&str> = slots.iter().map(|x| x.as_str()).collect();
        out.push(CorpusCase { text: render(&lits, &defaults), tags: vec![format!("tmpl:{ti}"), "default".into()] });
        for si in 0..slots.len() {
            for (vi, v) in vals.iter().enumerate() {
                let mut f = defaults.clone();
                f[si] = v;
                out.push(CorpusCase {
                    text: render(&lits, &f),
                    tags: vec![format!("tmpl:{ti}"), format!("slot:{si}"), format!("val:{}", val_name(vi))],
                });
            }
        }
        // pairwise (long word excluded from pairs to bound the size)
        for si in 0..slots.len() {
            for sj in (si + 1)..slots.len() {
                // (pairs over the first 12 boundary values: the later additions appear in the single substitutions)
                for (vi, v) in BOUNDARY.iter().enumerate().take(12) {
                    for (wi, w) in BOUNDARY.iter().enumerate().take(12) {
                        let mut f = defaults.clone();
                        f[si] = v;
                        f[sj] = w;
                        out.push(CorpusCase {
                            text: render(&lits, &f),
                            tags: vec![
                                format!("tmpl:{ti}"),
                                format!("slot:{si}"),
                                format!("val:{}", val_name(vi)),
                                format!("slot:{sj}"),
                                format!("val:{}", val_name(wi)),
                            ],
                        });
                    }
                }
            }
        }
    }
    out
}

pub fn val_name(i: usize) -> String {
    match i {
        0 => "empty".into(),
        1 => "0".into(),
        2 => "-1".into(),
        3 => "i64max".into(),
        4 => "i64min".into(),
        5 => "2^63".into(),
        6 => "20digits".into(),
        7 => "e-acute".into(),
        8 => "emoji".into(),
        9 => "ansi-nul".into(),
        10 => "2^32".into(),
        11 => "1e9".into(),
        12 => "0x".into(),
        13 => "dash".into(),
        14 => "star".into(),
        15 => "u64max".into(),
        16 => "65536".into(),
        17 => "quoted-empty".into(),
        18 => "u32max".into(),
        19 => "i32max".into(),
        _ => "longword".into(),
    }
}

/// A simple, brush-independent lexer: identifier/number runs, whitespace runs, single other chars.
pub fn lex(s: &str) -> Vec<String> {
    let mut out: Vec<String> = vec![];
    let mut cur = String::new();
    let mut kind = 0; // 1 = word, 2 = space
    for c in s.chars() {
        let k = if c.is_alphanumeric() || c == '_' || c == '/' || c == '.' {
            1
        } else if c == ' ' || c == '\t' {
            2
        } else {
            3
        };
        if k == 3 {
            if !cur.is_empty() {
                out.push(std::mem::take(&mut cur));
            }
            out.push(c.to_string());
            kind = 0;
        } else {
            if k != kind && !cur.is_empty() {
                out.push(std::mem::take(&mut cur));
            }
            cur.push(c);
            kind = k;
        }
    }
    if !cur.is_empty() {
        out.push(cur);
    }
    out
}

pub const OPERATORS: &[&str] = &[
    ";", "&", "|", "(", ")", "{", "}", "<", ">", "$", "\"", "'", "`", "\\", "#", "!", "[[", "]]", "((", "))", "&&", "||", ";;", "<<", "$(", "${", "\n", "=", "[",
    "]", "*", "~",
];

fn mutate_once(toks: &[String]) -> Vec<(Vec<String>, String)> {
    let mut out = vec![];
    let n = toks.len();
    for i in 0..n {
        let mut d = toks.to_vec();
        d.remove(i);
        out.push((d, format!("del@{i}")));
        let mut d = toks.to_vec();
        d.insert(i, toks[i].clone());
        out.push((d, format!("dup@{i}")));
        if i + 1 < n {
            let mut d = toks.to_vec();
            d.swap(i, i + 1);
            out.push((d, format!("swap@{i}")));
        }
        for (oi, op) in OPERATORS.iter().enumerate() {
            if toks[i] != *op {
                let mut d = toks.to_vec();
                d[i] = op.to_string();
                out.push((d, format!("rep@{i}:{oi}")));
            }
        }
    }
    out
}

/// (c) token-level mutation of every default-rendered template: deviation bound 1 (quick); thorough adds
/// all pairs of structural mutations (delete/duplicate/swap) — exhaustive within the bound.
pub fn mutations(tier: Tier) -> Vec<CorpusCase> {
    let mut out = vec![];
    let mut seen = std::collections::HashSet::new();
    for (ti, t) in TEMPLATES.iter().enumerate() {
        let base = default_render(t);
        let toks = lex(&base);
        for (m, d) in mutate_once(&toks) {
            let text: String = m.concat();
            if seen.insert(text.clone()) {
                out.push(CorpusCase { text, tags: vec![format!("tmpl:{ti}"), format!("mut:{d}")] });
            }
            if tier == Tier::Thorough && !d.starts_with("rep@") {
                for (m2, d2) in mutate_once(&m) {
                    if d2.starts_with("rep@") {
                        continue;
                    }
                    let text: String = m2.concat();
                    if seen.insert(text.clone()) {
                        out.push(CorpusCase { text, tags: vec![format!("tmpl:{ti}"), format!("mut:{d}"), format!("mut:{d2}")] });
                    }
                }
            }
        }
    }
    out
}

/// Nestable constructs, each as a command -> command wrapper (word-level constructs embed the inner
/// command through a command substitution).
pub const NESTERS: &[(&str, &str, &str)] = &[
    ("subshell", "( ", " )"),
    ("group", "{ ", "; }"),
    ("cmdsub", "echo $(", ")"),
    ("cmdsub-dq", "echo \"$(", ")\""),
    ("backquote", "echo `", "`"),
    ("if", "if true; then ", "; fi"),
    ("while", "while true; do ", "; break; done"),
    ("for", "for i in 1; do ", "; done"),
    ("case", "case a in a) ", ";; esac"),
    ("func", "f() { ", "; }; f"),
    ("arith", "echo $(( ($(", ")+1) ))"),
    ("param-default", "echo ${u:-$(", ")}"),
    ("brace-exp", "echo {a,$(", ")}"),
    ("dq-param", "echo \"${u:-$(", ")}\""),
    ("procsub", "vcat <(", ")"),
    ("negate", "! ", ""),
    ("pipeline", "", " | vcat"),
    ("andor", "true && ", " || false"),
];

/// Pure word-level / operator-level self nestings: (name, open, innermost, close).
pub const WORD_NESTERS: &[(&str, &str, &str, &str)] = &[
    ("arith-paren", "(", "1", ")"),
    ("arith-expansion", "$((", "1", "))"),
    ("param-default-word", "${u:-", "x", "}"),
    ("param-default-dq", "\"${u:-", "x", "}\""),
    ("brace-word", "{a,", "x", "}"),
    ("test-paren", "( ", "a", " )"),
    ("array-index", "${a[", "0", "]}"),
    ("extglob", "@(", "a", ")"),
    ("bracket-open", "[", "a", ""),
    ("dquote-cmdsub", "\"$(echo ", "x", ")\""),
];

/// (d) each nestable construct and each ordered pair of them, nested to depth {1,...,64}.
pub fn nestings(max_depth: usize) -> Vec<CorpusCase> {
    let all_depths = [1usize, 2, 4, 8, 16, 32, 64];
    let depths: Vec<usize> = all_depths.iter().copied().filter(|d| *d <= max_depth).collect();
    let mut out = vec![];
    for (a, ao, ac) in NESTERS {
        for &d in &depths {
            let mut s = "echo x".to_string();
            if *a == "backquote" {
                // nested backquotes need one more level of backslashes per level: exponential; use the
                // run-time nesting through variables instead
                let mut script = String::from("c0='echo x'\n");
                for k in 1..=d {
                    script.push_str(&format!("c{k}='echo `eval \"$c{}\"`'\n", k - 1));
                }
                script.push_str(&format!("eval \"$c{d}\""));
                out.push(CorpusCase { text: script, tags: vec![format!("nest:{a}"), format!("depth:{d}")] });
                continue;
            }
            for _ in 0..d {
                s = format!("{ao}{s}{ac}");
            }
            out.push(CorpusCase { text: s, tags: vec![format!("nest:{a}"), format!("depth:{d}")] });
        }
        for (b, bo, bc) in NESTERS {
            if a == b || *a == "backquote" || *b == "backquote" {
                continue;
            }
            for &d in &depths {
                let mut s = "echo x".to_string();
                for k in 0..d {
                    if k % 2 == 0 {
                        s = format!("{bo}{s}{bc}");
                    } else {
                        s = format!("{ao}{s}{ac}");
                    }
                }
                out.push(CorpusCase { text: s, tags: vec![format!("nest:{a}"), format!("nest:{b}"), format!("depth:{d}")] });
            }
        }
    }
    for (n, o, i, c) in WORD_NESTERS {
        for &d in &depths {
            let w = format!("{}{}{}", o.repeat(d), i, c.repeat(d));
            let text = match *n {
                "arith-paren" => format!("echo $(( {w} ))"),
                "test-paren" => format!("[[ {w} ]]; echo $?"),
                "extglob" => format!("shopt -s extglob; case a in {w}) echo m;; esac"),
                "array-index" => format!("a=(0 0); echo {w}"),
                _ => format!("echo {w}"),
            };
            out.push(CorpusCase { text, tags: vec![format!("nest:{n}"), format!("depth:{d}")] });
        }
    }
    // run-time nesting: eval / source / function recursion to depth d through variables
    for &d in &depths {
        let mut script = String::from("c0='echo x'\n");
        for k in 1..=d {
            script.push_str(&format!("c{k}='eval \"$c{}\"'\n", k - 1));
        }
        script.push_str(&format!("eval \"$c{d}\""));
        out.push(CorpusCase { text: script, tags: vec!["nest:eval".into(), format!("depth:{d}")] });
        out.push(CorpusCase {
            text: format!("f() {{ if (( $1 > 0 )); then f $(( $1 - 1 )); else echo x; fi; }}; f {d}"),
            tags: vec!["nest:recursion".into(), format!("depth:{d}")],
        });
    }
    out
}

pub fn all_cases(tier: Tier) -> Vec<CorpusCase> {
    let mut v = substitutions(tier);
    v.extend(mutations(tier));
    v.extend(nestings(tier.pick(8, 64)));
    v
}

/// Lines for the line-editor entry points (C19, C01f). Quick: defaults, single boundary substitutions
/// and nestings; thorough: additionally pairwise substitutions and all mutations.
pub fn lines(tier: Tier) -> Vec<String> {
    let mut seen = std::collections::HashSet::new();
    let mut out = vec![];
    let cases: Vec<CorpusCase> = match tier {
        Tier::Thorough => all_cases(tier),
        Tier::Quick => {
            let mut v: Vec<CorpusCase> = substitutions(tier).into_iter().filter(|c| c.tags.iter().filter(|t| t.starts_with("slot:")).count() <= 1).collect();
            v.extend(nestings(tier.pick(8, 64)));
            v
        }
    };
    for c in cases {
        if c.text.len() <= 4096 && seen.insert(c.text.clone()) {
            out.push(c.text);
        }
    }
    out
}
