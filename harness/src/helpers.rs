//! Deterministic, harmless external commands (multi-call: the name of the symlink selects the tool).
//! They are the only programs on PATH for both shells, so the two sides run the very same externals.

use std::io::{Read, Write};

pub const NAMES: &[&str] = &[
    "vargs", "vcat", "vhead", "venv", "vfds", "vsleep", "vemit", "vtrue", "vfalse", "vexit", "vprod", "vcons",
    "vecho", "vline", "vstatus", "vio",
];

pub fn is_helper(name: &str) -> bool {
    NAMES.contains(&name)
}

fn fnv(data: &[u8], mut h: u64) -> u64 {
    for b in data {
        h ^= *b as u64;
        h = h.wrapping_mul(0x100000001b3);
    }
    h
}

/// Multi-byte pattern: lines "é€😀0000000\n" (17 bytes, so 4096-byte write boundaries fall inside
/// characters), cut at the last character boundary <= n.
pub fn pattern_bytes_utf8(n: usize) -> Vec<u8> {
    let mut v = Vec::with_capacity(n + 32);
    let mut i = 0u64;
    while v.len() < n {
        v.extend_from_slice(format!("é€😀{:07}\n", i % 10_000_000).as_bytes());
        i += 1;
    }
    let mut end = n;
    while end > 0 && (v[end] & 0xC0) == 0x80 {
        end -= 1;
    }
    v.truncate(end);
    v
}

pub fn pattern_bytes(n: usize) -> Vec<u8> {
    // lines "0000000\n" "0000001\n" … (8 bytes each), truncated to n bytes
    let mut v = Vec::with_capacity(n + 8);
    let mut i = 0u64;
    while v.len() < n {
        v.extend_from_slice(format!("{:07}\n", i % 10_000_000).as_bytes());
        i += 1;
    }
    v.truncate(n);
    v
}

pub fn main(name: &str, args: &[String]) -> i32 {
    let stdout = std::io::stdout();
    let mut out = stdout.lock();
    match name {
        "vargs" => {
            let mut buf = Vec::new();
            buf.extend_from_slice(args.len().to_string().as_bytes());
            buf.push(0);
            for a in args {
                buf.extend_from_slice(a.as_bytes());
                buf.push(0);
            }
            buf.push(b'\n');
            let _ = out.write_all(&buf);
            0
        }
        "vecho" => {
            let _ = writeln!(out, "{}", args.join(" "));
            0
        }
        "vcat" => {
            let mut buf = [0u8; 65536];
            let mut stdin = std::io::stdin().lock();
            loop {
                match stdin.read(&mut buf) {
                    Ok(0) => return 0,
                    Ok(n) => {
                        if out.write_all(&buf[..n]).is_err() {
                            return 1;
                        }
                    }
                    Err(_) => return 1,
                }
            }
        }
        "vline" => {
            // read exactly one line from stdin byte-by-byte (no read-ahead) and print it
            let mut stdin = std::io::stdin().lock();
            let mut line = vec![];
            let mut b = [0u8; 1];
            loop {
                match stdin.read(&mut b) {
                    Ok(1) => {
                        line.push(b[0]);
                        if b[0] == b'\n' {
                            break;
                        }
                    }
                    _ => break,
                }
            }
            let _ = out.write_all(&line);
            if line.is_empty() { 1 } else { 0 }
        }
        "vhead" => {
            let n: usize = args.first().and_then(|s| s.parse().ok()).unwrap_or(1);
            let mut stdin = std::io::stdin().lock();
            let mut lines = 0;
            let mut b = [0u8; 1];
            let mut acc = vec![];
            while lines < n {
                match stdin.read(&mut b) {
                    Ok(1) => {
                        acc.push(b[0]);
                        if b[0] == b'\n' {
                            lines += 1;
                        }
                    }
                    _ => break,
                }
            }
            let _ = out.write_all(&acc);
            0
        }
        "venv" => {
            let mut v: Vec<(String, String)> = std::env::vars_os()
                .map(|(k, v)| (k.to_string_lossy().into_owned(), v.to_string_lossy().into_owned()))
                .collect();
            v.sort();
            for (k, val) in v {
                if args.is_empty() || args.iter().any(|a| a == &k) {
                    let _ = writeln!(out, "{k}={val}");
                }
            }
            0
        }
        "vfds" => {
            // fd -> kind, for fds 0..=12 (normalised: file names relative, pipes/sockets by kind)
            let cwd = std::env::current_dir().unwrap_or_default();
            let mut s = String::new();
            for fd in 0..=12 {
                let p = format!("/proc/self/fd/{fd}");
                if let Ok(t) = std::fs::read_link(&p) {
                    let t = t.to_string_lossy().into_owned();
                    let kind = if t.starts_with("pipe:") {
                        "pipe".to_string()
                    } else if t.starts_with("socket:") {
                        "socket".to_string()
                    } else if t == "/dev/null" {
                        "null".to_string()
                    } else if let Ok(r) = std::path::Path::new(&t).strip_prefix(&cwd) {
                        format!("file:{}", r.display())
                    } else if t.contains("/stdout") {
                        "OUT".to_string()
                    } else if t.contains("/stderr") {
                        "ERR".to_string()
                    } else if t.contains("/stdin") {
                        "IN".to_string()
                    } else {
                        // any other absolute target (directory handle of the runtime etc.)
                        format!("other")
                    };
                    // access mode
                    let flags = unsafe { libc::fcntl(fd, libc::F_GETFL) };
                    let mode = match flags & libc::O_ACCMODE {
                        libc::O_RDONLY => "r",
                        libc::O_WRONLY => "w",
                        _ => "rw",
                    };
                    let app = if flags & libc::O_APPEND != 0 { "a" } else { "" };
                    s.push_str(&format!("{fd}={kind}:{mode}{app} "));
                }
            }
            // with an argument the table goes to that file (opened only now, so it is not in the table)
            if let Some(name) = args.first() {
                if let Ok(mut f) = std::fs::File::create(name) {
                    let _ = writeln!(f, "{}", s.trim_end());
                }
            } else {
                let _ = writeln!(out, "{}", s.trim_end());
            }
            0
        }
        "vio" => {
            // probe the descriptors this process was given: write O to 1, E to 2, T to 3, read a line from 0;
            // the report goes to a side file so that it does not depend on the redirections under test
            let w = |fd: i32, s: &str| -> bool { unsafe { libc::write(fd, s.as_ptr() as *const _, s.len()) == s.len() as isize } };
            let o = w(1, "O\n");
            let e = w(2, "E\n");
            let t = w(3, "T\n");
            let mut line = vec![];
            let mut b = [0u8; 1];
            loop {
                let r = unsafe { libc::read(0, b.as_mut_ptr() as *mut _, 1) };
                if r != 1 || b[0] == b'\n' {
                    break;
                }
                line.push(b[0]);
            }
            let name = args.first().cloned().unwrap_or_else(|| "report.txt".into());
            if let Ok(mut f) = std::fs::OpenOptions::new().create(true).append(true).open(&name) {
                let open: Vec<String> = [0, 1, 2, 3, 9].iter().filter(|fd| unsafe { libc::fcntl(**fd, libc::F_GETFD) } >= 0).map(|fd| fd.to_string()).collect();
                let _ = writeln!(f, "wrote1={o} wrote2={e} wrote3={t} read0={:?} open={}", String::from_utf8_lossy(&line), open.join(","));
            }
            0
        }
        "vsleep" => {
            let ms: u64 = args.first().and_then(|s| s.parse().ok()).unwrap_or(0);
            std::thread::sleep(std::time::Duration::from_millis(ms));
            0
        }
        "vemit" => {
            // vemit TAG [fd…]: writes "TAG\n" to each listed fd (default 1); status 1 if any write fails
            let tag = args.first().cloned().unwrap_or_default();
            let fds: Vec<i32> = args.iter().skip(1).filter_map(|s| s.parse().ok()).collect();
            let fds = if fds.is_empty() { vec![1] } else { fds };
            let mut rc = 0;
            for fd in fds {
                let line = format!("{tag}\n");
                let r = unsafe { libc::write(fd, line.as_ptr() as *const _, line.len()) };
                if r < 0 {
                    rc = 1;
                }
            }
            rc
        }
        "vtrue" => 0,
        "vfalse" => 1,
        "vexit" | "vstatus" => args.first().and_then(|s| s.parse().ok()).unwrap_or(0),
        "vprod" => {
            // vprod N [u]: N bytes of pattern (u: multi-byte UTF-8 pattern); SIGPIPE default action applies
            let n: usize = args.first().and_then(|s| s.parse().ok()).unwrap_or(0);
            unsafe { libc::signal(libc::SIGPIPE, libc::SIG_DFL) };
            let data = if args.get(1).map(|s| s == "u").unwrap_or(false) { pattern_bytes_utf8(n) } else { pattern_bytes(n) };
            for chunk in data.chunks(4096) {
                if out.write_all(chunk).is_err() {
                    return 141;
                }
            }
            let _ = out.flush();
            0
        }
        "vcons" => {
            // vcons [delay_ms]: read all stdin; print "len checksum"
            let delay: u64 = args.first().and_then(|s| s.parse().ok()).unwrap_or(0);
            if delay > 0 {
                std::thread::sleep(std::time::Duration::from_millis(delay));
            }
            let mut stdin = std::io::stdin().lock();
            let mut buf = [0u8; 65536];
            let mut len = 0u64;
            let mut h = 0xcbf29ce484222325u64;
            loop {
                match stdin.read(&mut buf) {
                    Ok(0) => break,
                    Ok(n) => {
                        len += n as u64;
                        h = fnv(&buf[..n], h);
                    }
                    Err(_) => return 1,
                }
            }
            let _ = writeln!(out, "{len} {h:016x}");
            0
        }
        _ => 127,
    }
}
