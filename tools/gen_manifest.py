#!/usr/bin/env python3
"""Generates /verif/MANIFEST.json from the table below (so the file is always schema-valid)."""
import json, os, sys
HERE = os.path.dirname(os.path.dirname(os.path.abspath(__file__)))

# id -> (category, technique, level text, level note, design ref)
CHECKS = {
 "C01": ("exploration", "exhaustive enumeration: all strings over a 31-symbol alphabet up to length 4/5 through every parser entry point; construct corpus x boundary values, token mutations (bounded deviations), nestings to depth 64 executed in-process and by the real binary; crash/hang oracle; value re-interpretation cycles (arithmetic values, namerefs, aliases), payload sizes around page/pipe capacities x 12 movers, start-up environment sweep",
         "Every input in the stated finite spaces is parsed, executed and fed to the line-editor entry points on the real code, with process isolation so aborts, stack overflows and hangs are observed rather than lost.",
         "Trusted: worker isolation and timeouts (a hang counts only after an isolated re-run with a doubled cap and only if bash finishes the same script). Not covered: inputs beyond the bounds; unbounded work bash does not finish either.", "5/C01"),
 "C02": ("exploration", "exhaustive enumeration of all programs of a typed control-flow grammar up to a size bound; differential against bash on traces and every intermediate $?",
         "All programs with <= 3/4 nodes over the full leaf set (+ exactly 4/5 nodes over a reduced leaf set) are run through Shell::run_script and through bash; traces with status probes must be equal.",
         "Trusted: bash 5.2.15 as oracle, the renderer. Not covered: larger programs.", "5/C02"),
 "C03": ("exploration", "exhaustive enumeration of failing-leaf placements x exemption contexts x option combinations (errexit, pipefail, inherit_errexit, errtrace/ERR) and of expansion forms x unset targets under nounset; differential against bash; the failing leaf also as builtin/external/assignment-with-failing-substitution/subshell/(( ))/[[ ]]; and-or chains; pipeline stages inside exempt positions; units (function, nested function, eval) that switch errexit on in a shell started without it",
         "Every program with a failing leaf up to the size bound, in every wrapper and option set, plus toggles of set -e inside functions/subshells, is run on both shells; last marker, ERR markers and exit status compared.",
         "Trusted: bash as oracle. Script-file mode on both sides.", "5/C03"),
 "C04": ("exploration", "exhaustive enumeration of all values over a 20-symbol adversarial alphabet up to length 2/3 x 23 quoting contexts x 10 IFS/glob configurations; identity oracle on the argv seen by a capturing builtin; \"$@\"/\"${a[@]}\" glued to other pieces inside the same quotes",
         "Values are injected and read back through the API, so the quoting layer cannot mask a defect; every context must deliver exactly the original string(s).",
         "Trusted: the capturing builtin (15 lines). No bash needed.", "5/C04"),
 "C05": ("exploration", "exhaustive enumeration of all words of <= 2/3 pieces over 26 piece kinds x values x positional lists x IFS settings x directory trees; differential against bash on the resulting argument list; composite double-quoted pieces (defaults/alternates with inner quoting)",
         "Each word is expanded in-process (capturing builtin) and by bash under the same variables, IFS and files; argument lists must be identical.",
         "Trusted: bash as oracle.", "5/C05"),
 "C06": ("exploration", "exhaustive enumeration of (value, operator, operand) triples; differential against bash plus the bash-independent shortest/longest prefix/suffix law evaluated with a reference matcher; replacement texts; extglob alternation groups; every operator also through ${!r}, ${a[1]}, ${1}, associative elements; 31 list forms on 16 list targets (incl. lists of one or two empty elements as $@, $*, ${a[@]}, ${a[*]})",
         "All patterns up to length 2/3 x all values up to length 3 through the 8 pattern operators; substring forms over an offset/length grid; default family, case modification, transforms, indirection; scalars, positional lists, arrays; set/null/unset/declared-unset states with and without nounset.",
         "Trusted: bash as oracle; the reference matcher only on rows where it agrees with bash (counted).", "5/C06"),
 "C07": ("exploration", "exhaustive enumeration of all expression trees up to depth 1 (24 operands) and depth 2 (reduced operands) over all operators, rendered from the tree by the reference C precedence table; reference evaluator validated against bash + bash itself; expressions that differ only in white space but tokenise differently, evaluated pairwise in one shell (order dependence)",
         "Every tree is evaluated in $(( )), and depth-1 trees also in (( )), let, a[E], ${s:E}, declare -i; results and variable side effects must equal bash's / the reference evaluator's.",
         "Trusted: bash; the 120-line reference evaluator (its agreement with bash on the run is reported).", "5/C07"),
 "C08": ("exploration", "exhaustive enumeration of all (pattern, subject) pairs over small alphabets through case, [[ ]], literal and quoted patterns, and of all small directory trees x glob patterns; differential against bash + reference matcher",
         "All patterns with <= 3/4 symbols x 259 subjects under extglob/nocasematch settings; pathname expansion over all trees of <= 2/3 names x 820 patterns x dotglob/nullglob.",
         "Trusted: bash under C.utf8 as oracle.", "5/C08"),
 "C09": ("exploration", "exhaustive enumeration of all action sequences up to length 2/3 over 58 writers/declarations (incl. re-declaration of a local in the same call) at 4 placements (top level, function, caller+callee, depth 3); differential against bash on declare -p dumps and the child environment after every step; temporary assignments on failing builtins",
         "Every writer path (assignment, +=, element assignment, for, read, printf -v, (( )), ${v:=}, getopts, mapfile, temporary assignments) is combined with every attribute declaration and scope placement.",
         "Trusted: bash as oracle.", "5/C09"),
 "C10": ("exploration", "exhaustive enumeration of redirection lists up to length 2/3 over 26 items x 7 command kinds (+noclobber) and of here-document bodies x delimiter forms x placements, here-strings (17 words x 7 consumers) and here-document/here-string bodies of six sizes around the 64 KiB pipe capacity and the 1 MiB pipe size limit x 6 consumers; single redirections and pairs again after `cd` (top level / inside a subshell); differential against bash + restoration invariant",
         "Inside-command probe (which descriptors are open/readable/writable), all file contents, and the descriptor table a child sees before and after each command.",
         "Trusted: bash as oracle; diagnostic wording is not compared.", "5/C10"),
 "C11": ("exploration", "exhaustive enumeration of pipeline shapes (stage kind x position) x payload sizes around the pipe capacity x stage delays x early-exit consumers, and of command substitutions whose writer is the shell itself (13 bodies incl. nested substitutions x 3 sizes), on the real binary under a wall-clock cap; differential against bash",
         "Every stage kind (external, builtin, function, group, subshell, while-read) in every position of 2/3/4-stage pipelines with payloads from 0 B to 1 MiB; output checksum, PIPESTATUS, $?; hangs confirmed by an isolated re-run.",
         "Trusted: bash as oracle; cap = max(2.5 s, 20 x bash's time), doubled on confirmation. Stage-start orders below the 0/100 ms delay granularity are not enumerated.", "5/C11"),
 "C12": ("exploration", "exhaustive enumeration of mutator sequences up to length 2/3 over 44 mutators inside 23 subshell contexts (incl. 3/4-stage pipelines, `&` ending nested lists, background jobs collected by `wait %n`) x 5 parent option modes; self-differential on a full dump of the parent (serde Shell state + process-level state); exec-with-command mutators",
         "The parent's complete state before the subshell construct must equal the state after it; process-wide umask, RLIMIT_NOFILE, cwd and descriptor count are read by the harness itself.",
         "Trusted: the dump/diff code. Concurrent orders of the asynchronous contexts are not enumerated.", "5/C12"),
 "C13": ("exploration", "exhaustive enumeration of all values over a 21-symbol quoting alphabet up to length 2/3 x 16 producers; round-trip oracle through a fresh brush and through bash",
         "Every produced text (printf %q, @Q, @A, declare -p with attributes/arrays/assoc, set, export -p, alias, trap -p, xtrace) is evaluated again in argument and assignment position and must give back the original value.",
         "Trusted: bash as second reader.", "5/C13"),
 "C14": ("exploration", "exhaustive enumeration of function bodies (grammar up to 3/4 nodes + 61 printer features in 11 enclosing constructs + pairs); fixed-point, AST-equality, behaviour, export/import and bash-acceptance oracles; 7 definition forms (body redirections, subshell body, function keyword)",
         "parse -> print -> parse -> print on the real parser/printer; serde ASTs compared with locations erased; the printed text is run, exported through BASH_FUNC_f%% and re-imported, and fed to bash.",
         "Trusted: serde form of the AST; bash.", "5/C14"),
 "C15": ("exploration", "exhaustive enumeration of programs x 5 delivery modes, of every line-prefix on standard input, and of (text, option-set) sequences against a pristine-process table (cache transparency); one program per construct that can hold a command open across a line end; $LINENO after each of 22 line-consuming pieces and after ordered pairs of them",
         "Same program through script file, -c, source, eval (public entry points) and stdin (real binary) against bash per mode and against each other; prefixes decide completeness behaviourally; long-lived workers vs one fresh process per (text, options).",
         "Trusted: bash per mode. LINENO is compared per mode only.", "5/C15"),
 "C16": ("exploration", "exhaustive enumeration of termination path x nesting context x trap life-cycle (17, incl. 11 spellings of the pseudo-signal when setting/replacing/removing) x handler kind x front-end; invariants read from stdout + bash; every subset of {DEBUG, ERR, EXIT} x handler bodies x programs x option sets",
         "EXIT marker count and position, $? seen by the handler, process status, on file/-c (public entry points) and stdin (real binary).",
         "Trusted: the invariant checker; bash.", "5/C16"),
 "C17": ("model_checking", "explicit-state breadth-first search over event histories executed on the real job table (gate-controlled job durations); invariants in every state; replay determinism re-checked; job kinds incl. error-ending jobs are part of the state key; awaited jobs released one at a time; compound jobs append to one shared file through a redirection set up at launch (file effects checked after every wait and at the end)",
         "All histories of depth <= 6/7 over launch (2/4 kinds), finish k, prompt poll, jobs, wait, wait %n, foreground marker with <= 3 jobs; states merged by canonical observation; distinct job numbers, wait-returns-after-jobs (happens-before through markers), markers exactly once.",
         "Trusted: the gate builtin and the replay driver. Orders inside a single builtin are not explored.", "5/C17"),
 "C18": ("exploration", "exhaustive enumeration of command sequences up to length 2/3 over 68 leaves (39 fault leaves) repeated 2/16 (quick) or 50 (thorough pairs) / 10 (thorough fault...fault triples) times in one shell; resource-count invariants; each sequence also inside a function / sourced file / trap handler / loop-called function, with a stack probe per iteration",
         "Descriptor count, zombie children, scope depth and call-stack depth (serde) after N iterations must equal those after one; the N-th iteration prints what the first did.",
         "Trusted: /proc readings after a settle period (scripts with asynchronous parts: once stable for 15 ms; a leak is growth).", "5/C18"),
 "C19": ("exploration", "exhaustive enumeration of all lines over a 16-symbol alphabet up to length 5/6 x every cursor, plus construct corpus; invariant oracle on the real highlighter",
         "Every (line, cursor) pair within the bound is evaluated on the real highlight_command and the span invariant of the statement is checked literally.",
         "Trusted: the harness' invariant checker (30 lines). Not covered: longer lines, shells with user-defined aliases/functions.", "5/C19"),
 "C20": ("model_checking", "explicit-state model checking (stateright BFS) in which every transition executes the real Shell/History code and is compared with a reference model; statement invariants checked on the real file; search started from the empty history and from three seed files (mixed timestamped/bare)",
         "All operation sequences of depth <= 5/7 over add (4 commands), save, new session, delete first/last, clear, toggle timestamps, history -w, history -a; second run must reproduce state/transition counts.",
         "Trusted: the 40-line reference model of the property. Multi-line commands are outside the statement.", "5/C20"),
}
NOT_YET = {}

def main():
    props = [json.loads(l) for l in open(os.path.join(HERE, "properties.jsonl"))]
    checks, na = [], []
    for p in props:
        pid = p["id"]
        if pid in CHECKS:
            cat, tech, text, note, ref = CHECKS[pid]
            checks.append({
                "property_id": pid,
                "quick_cmd": f"./check {pid} --tier quick",
                "thorough_cmd": f"./check {pid} --tier thorough",
                "evidence_file": f"/verif/evidence/{pid}.json",
                "replay_cmd_template": f"./check {pid} --replay {{path}}",
                "engine": "vcheck",
                "level_claimed": {"category": cat, "text": text, "design_ref": f"DESIGN.md section {ref}"},
                "level_note": note,
                "technique": tech,
            })
        else:
            na.append({"property_id": pid, "reason": NOT_YET.get(pid, "check not built yet in this round; bounded exhaustive exploration is applicable and planned (see DESIGN.md section 5)")})
    m = {
        "version": 1,
        "setup_cmd": "cd /verif/harness && CARGO_NET_OFFLINE=true cargo build --release --offline",
        "hooks": {
            "guard": "none: no hook or instrumentation was added to the repository (every check drives public APIs of the crates and the real binary); had one been needed it would have been the cargo feature `verif-hooks`",
            "enable": "nothing to enable: the harness links /repo's crates unmodified (with their existing `serde` feature)",
            "baseline_off_cmd": "cd /repo && cargo nextest run --workspace --no-fail-fast --tool-config-file pb:/w/lib/nextest.toml --profile pb --test-threads 8 --offline",
            "source_commits": [],
            "add_only": True,
        },
        "engines": [{"name": "vcheck", "path": "/verif/harness", "serves_properties": sorted(CHECKS),
                     "kind_free_text": "Rust explorer linking /repo's crates by path: exhaustive enumerators, in-process workers (process-isolated), the real brush entry point, live bash oracle"}],
        "checks": checks,
        "not_applicable": na,
        "notes": "All checks: `./check <ID> --tier quick|thorough`; exit 0 held / 1 VIOLATION / 2 machinery failure. Known findings: /verif/known_findings.json.",
    }
    json.dump(m, open(os.path.join(HERE, "MANIFEST.json"), "w"), indent=1)
    print("MANIFEST.json written:", len(checks), "checks,", len(na), "not_applicable")

if __name__ == "__main__":
    main()
