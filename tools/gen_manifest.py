#!/usr/bin/env python3
"""Generates /verif/MANIFEST.json from the table below (so the file is always schema-valid)."""
import json, os, sys
HERE = os.path.dirname(os.path.dirname(os.path.abspath(__file__)))

# id -> (category, technique, level text, level note, design ref)
CHECKS = {
 "C19": ("exploration", "exhaustive enumeration of all lines over a 16-symbol alphabet up to length 5/6 x every cursor, plus construct corpus; invariant oracle on the real highlighter",
         "Every (line, cursor) pair within the bound is evaluated on the real highlight_command and the span invariant of the statement is checked literally; bounded-exhaustive, no sampling.",
         "Trusted: the harness' own invariant checker (30 lines). Not covered: lines longer than the bound, shells with user-defined aliases/functions.", "5/C19"),
}
NOT_YET = {}

def main():
    props = [json.loads(l) for l in open(os.path.join(HERE, "properties.jsonl"))]
    checks, na = [], []
    for p in props:
        pid = p["id"]
        if pid in CHECKS:
            cat, tech, text, note, ref = CHECKS[pid]
            checks.append({
                "property_id": pid,
                "quick_cmd": f"./check {pid} --tier quick",
                "thorough_cmd": f"./check {pid} --tier thorough",
                "evidence_file": f"/verif/evidence/{pid}.json",
                "replay_cmd_template": f"./check {pid} --replay {{path}}",
                "engine": "vcheck",
                "level_claimed": {"category": cat, "text": text, "design_ref": f"DESIGN.md section {ref}"},
                "level_note": note,
                "technique": tech,
            })
        else:
            na.append({"property_id": pid, "reason": NOT_YET.get(pid, "check not built yet in this round; bounded exhaustive exploration is applicable and planned (see DESIGN.md section 5)")})
    m = {
        "version": 1,
        "setup_cmd": "cd /verif/harness && CARGO_NET_OFFLINE=true cargo build --release --offline",
        "hooks": {
            "guard": "cargo feature `verif-hooks` on brush-core",
            "enable": "the harness crate's dependency declaration enables the feature (harness/Cargo.toml); the repository's own builds never do",
            "baseline_off_cmd": "cd /repo && cargo nextest run --workspace --no-fail-fast --test-threads 8 --offline",
            "source_commits": [],
            "add_only": True,
        },
        "engines": [{"name": "vcheck", "path": "/verif/harness", "serves_properties": sorted(CHECKS),
                     "kind_free_text": "Rust explorer linking /repo's crates by path: exhaustive enumerators, in-process workers (process-isolated), the real brush entry point, live bash oracle"}],
        "checks": checks,
        "not_applicable": na,
        "notes": "All checks: `./check <ID> --tier quick|thorough`; exit 0 held / 1 VIOLATION / 2 machinery failure. Known findings: /verif/known_findings.json.",
    }
    json.dump(m, open(os.path.join(HERE, "MANIFEST.json"), "w"), indent=1)
    print("MANIFEST.json written:", len(checks), "checks,", len(na), "not_applicable")

if __name__ == "__main__":
    main()
