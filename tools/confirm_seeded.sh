#!/bin/bash
# tools/confirm_seeded.sh <worktree> <seeded-id> <property>
# Confirms a sub-agent's change in ITS scratch worktree: (1) demo fails with the change, (2) the repository's
# suite still passes with it, (3) demo passes without it. Then stores patch + demo + meta.json under
# /verif/seeded/<seeded-id>/. The worktree is left for removal by the caller.
set -u
WT="$1"; ID="$2"; PROP="$3"
D=/verif/seeded/$ID; mkdir -p "$D"
cd "$WT" || exit 2
export CARGO_TARGET_DIR="$WT/target" CARGO_NET_OFFLINE=true
git diff -- . ':!MUTANT' > "$D/patch.diff"
[ -s "$D/patch.diff" ] || { echo "empty patch"; exit 2; }
cp -r MUTANT/* "$D"/ 2>/dev/null
git diff -- . ':!MUTANT' > "$D/patch.diff"
touch_changed() { git diff --name-only -- . ':!MUTANT' | xargs -r touch; grep '^+++ b/' "$D/patch.diff" | sed 's#^+++ b/##' | xargs -r touch; }
touch_changed
cargo build -p brush-shell --offline >/dev/null 2>&1 || { echo "build failed with change"; exit 2; }
demo=$(ls MUTANT/demo.sh 2>/dev/null)
# demos differ in how they want to be run: by bash with the brush path as argument/BRUSH, or by brush itself
run_demo() { if [ -n "$demo" ]; then (cd "$WT" && export BRUSH="$WT/target/debug/brush" && { echo "[bash demo.sh <brush>]"; timeout 120 bash MUTANT/demo.sh "$WT/target/debug/brush" 2>&1 | tail -4; echo "[brush demo.sh]"; timeout 120 "$WT/target/debug/brush" --norc --noprofile MUTANT/demo.sh 2>&1 | tail -4; }); else echo "(no demo.sh)"; fi; }
with=$(run_demo)
cargo nextest run --workspace --no-fail-fast --tool-config-file pb:/w/lib/nextest.toml --profile pb --test-threads 6 --offline >/tmp/confirm_$ID.log 2>&1
suite=$(python3 - "$WT" <<'PY'
import json, sys, xml.etree.ElementTree as ET
b = json.load(open('/root/.vp/BASELINE.json'))
try: root = ET.parse(sys.argv[1] + '/target/nextest/pb/junit.xml').getroot()
except Exception as e: print("no-junit"); sys.exit()
passed, failed = set(), set()
for tc in root.iter('testcase'):
    tid = (tc.get('classname') or '') + '::' + (tc.get('name') or '')
    if tc.find('failure') is not None or tc.find('error') is not None or tc.find('flakyFailure') is not None or tc.find('rerunFailure') is not None: failed.add(tid)
    elif tc.find('skipped') is None: passed.add(tid)
passed -= failed
missing = [t for t in b['stable_pass'] if t not in passed]
print(f"{len(passed)} passed, {len(failed)} failed, stable_pass not passing: {len(missing)} {missing[:3]}")
PY
)
# (no `git stash`: the stash is shared by all worktrees of a repository)
git apply -R "$D/patch.diff" || { echo "cannot revert patch"; exit 2; }
touch_changed
cargo build -p brush-shell --offline >/dev/null 2>&1
without=$(run_demo)
git apply "$D/patch.diff"
touch_changed
python3 - "$D" "$PROP" "$with" "$without" "$suite" <<'PY'
import json, sys, os
d, prop, w, wo, suite = sys.argv[1:6]
readme = open(os.path.join(d, 'README.md')).read() if os.path.exists(os.path.join(d, 'README.md')) else ''
json.dump({"property": prop, "demo_with_change": w, "demo_without_change": wo, "repository_suite_with_change": suite,
           "confirmed_by": "tools/confirm_seeded.sh in the agent's scratch worktree", "needs_to_manifest": "see README.md", "readme_head": readme[:1500]},
          open(os.path.join(d, 'meta.json'), 'w'), indent=1)
PY
echo "WITH:    $with" | tail -3; echo "WITHOUT: $without" | tail -3; echo "SUITE:   $suite"
