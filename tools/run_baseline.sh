#!/bin/bash
# Runs the repository's own test suite (guard OFF: the repository never enables `verif-hooks`) and checks
# that every test of BASELINE.json's stable_pass list still passes. exit 0 = baseline intact.
cd /repo || exit 2
rm -f target/nextest/pb/junit.xml
CARGO_NET_OFFLINE=true cargo nextest run --workspace --no-fail-fast --tool-config-file pb:/w/lib/nextest.toml --profile pb --test-threads 8 --offline >/tmp/baseline_run.log 2>&1
python3 - <<'PY'
import json, sys, xml.etree.ElementTree as ET
b = json.load(open('/root/.vp/BASELINE.json'))
try:
    root = ET.parse('/repo/target/nextest/pb/junit.xml').getroot()
except Exception as e:
    print("baseline: no junit output:", e); sys.exit(2)
passed, failed = set(), set()
for tc in root.iter('testcase'):
    tid = (tc.get('classname') or '') + '::' + (tc.get('name') or '')
    if tc.find('failure') is not None or tc.find('error') is not None or tc.find('flakyFailure') is not None or tc.find('rerunFailure') is not None:
        failed.add(tid)
    elif tc.find('skipped') is None:
        passed.add(tid)
passed -= failed
missing = [t for t in b['stable_pass'] if t not in passed]
print(f"baseline: {len(passed)} passed, {len(failed)} failed; stable_pass not passing: {len(missing)}")
for t in missing[:40]:
    print("  NOT PASSING:", t)
sys.exit(0 if not missing else 1)
PY
