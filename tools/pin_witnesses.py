#!/usr/bin/env python3
"""tools/pin_witnesses.py [-n RUNS] [--tier quick|thorough] PROP...

Maintenance tool, never run by a registered check: runs each named check RUNS times (default 3) on the
current (repaired, unmodified) tree in pin mode and writes known_witnesses/<PROP>-<tier>.txt:

    # finding <id> strict=<0|1>
    <hash(oracle,case)> <hash(observed)>        one line per failing case the finding covered

strict=1 when every run produced the same set of failing cases for that finding; an observation hash that
differs between runs is recorded as 0 (= any). A check run then accepts a failure as that known finding only
if it is in the table with the recorded observation (see engine/report.rs `Pins::covers`).
Refuses to write when a run reports a VIOLATION (the tree must be clean first)."""
import os, subprocess, sys, tempfile, shutil, collections
V = os.path.dirname(os.path.dirname(os.path.abspath(__file__)))
args = sys.argv[1:]
runs, tier = 3, 'quick'
while args and args[0].startswith('-'):
    if args[0] == '-n': runs = int(args[1]); args = args[2:]
    elif args[0] == '--tier': tier = args[1]; args = args[2:]
    else: sys.exit(__doc__)
if subprocess.run(['git', '-C', '/repo', 'diff', '--quiet']).returncode != 0:
    sys.exit("/repo has uncommitted changes: pin only on the committed tree")
# build once, then run a private copy of the binary (so that editing the harness meanwhile is harmless)
subprocess.run(['cargo', 'build', '--release', '--offline'], check=True, capture_output=True, cwd=os.path.join(V, 'harness'))  # cwd: harness/.cargo/config.toml sets the target dir
exe = f'/dev/shm/vcheck-pin.{os.getpid()}'
shutil.copy(os.path.join(V, 'target', 'release', 'vcheck'), exe)
import atexit; atexit.register(lambda: os.path.exists(exe) and os.remove(exe))
import json
VOLATILE = {f['id'] for f in json.load(open(os.path.join(V, 'known_findings.json')))['findings'] if f.get('rule', {}).get('volatile_observation')}
for prop in args:
    per_run = []
    for r in range(runs):
        d = tempfile.mkdtemp(prefix='pin.', dir='/dev/shm')
        env = dict(os.environ, VCHECK_PIN=d, VCHECK_QUIET='1')
        p = subprocess.run([exe, prop, '--tier', tier], env=env, capture_output=True, text=True, cwd=V)
        if p.returncode != 0 or 'VIOLATION' in p.stdout:
            print(p.stdout[-2000:]); shutil.rmtree(d); sys.exit(f"{prop}: run {r} did not pass (rc={p.returncode}); not pinning")
        tab = collections.defaultdict(dict)
        raw = os.path.join(d, f'{prop}-{tier}.raw')
        if os.path.exists(raw):
            for l in open(raw):
                i, k, o = l.split()
                tab[i][k] = o
        per_run.append(tab)
        shutil.rmtree(d)
    ids = sorted(set().union(*[t.keys() for t in per_run]))
    out, summary = [], []
    for i in ids:
        sets = [set(t.get(i, {}).keys()) for t in per_run]
        strict = all(s == sets[0] for s in sets)
        union = sorted(set().union(*sets))
        unstable = 0
        out.append(f"# finding {i} strict={1 if strict else 0}")
        for k in union:
            obs = {t[i][k] for t in per_run if k in t.get(i, {})}
            if len(obs) == 1 and i not in VOLATILE: o = obs.pop()
            else: o = '0' * 16; unstable += 1
            out.append(f"{k} {o}")
        summary.append(f"{i}: {len(union)} cases strict={int(strict)} unstable_obs={unstable}")
    path = os.path.join(V, 'known_witnesses', f'{prop}-{tier}.txt')
    open(path, 'w').write('\n'.join(out) + '\n')
    print(f"{prop} {tier}: {len(ids)} findings, {sum(len(set().union(*[t.get(i, {}).keys() for t in per_run])) for i in ids)} cases -> {path}")
    for s in summary: print("   ", s)
