#!/usr/bin/env python3
"""Summarise the unattributed failures dumped by `VCHECK_DUMP=1 ./check <P>` (replay/<P>-<tier>-all.jsonl)."""
import json, sys, collections, re
p = sys.argv[1]; tier = sys.argv[2] if len(sys.argv) > 2 else 'quick'
rows = [json.loads(l) for l in open(f'/verif/replay/{p}-{tier}-all.jsonl')]
print(len(rows), 'unattributed failures')
pref = tuple(sys.argv[3].split(',')) if len(sys.argv) > 3 else None
c = collections.Counter(); ex = {}
for r in rows:
    tags = [t for t in r['tags'] if (pref is None or t.startswith(pref))]
    k = (r['oracle'],) + tuple(tags)
    c[k] += 1
    if k not in ex or len(r['case']) < len(ex[k]['case']): ex[k] = r
for k, n in c.most_common(int(sys.argv[4]) if len(sys.argv) > 4 else 40):
    e = ex[k]
    print(n, k, '\n     case', repr(e['case'])[:200], '\n     exp', repr(e['expected'])[:160], '\n     got', repr(e['observed'])[:160])
