#!/usr/bin/env python3
"""Source of /verif/known_findings.json (committed; never written at check time).

Each open finding = a genuine defect of brush that was *not* repaired (not small/safe, or the repository's
own suite pins the behaviour with `known_failure: true`, so a repair would make the unedited suite fail).
rule.all / rule.none are descriptor tags of the failing case (the grammar productions / alphabet symbols the
enumerator used), rule.oracle the sub-check, rule.observed_contains a substring of brush's observation.
A failing case is attributed to the first finding whose rule it satisfies; everything else is a VIOLATION.
Fixed entries suppress nothing.
"""
import json, os, subprocess

HERE = os.path.dirname(os.path.dirname(os.path.abspath(__file__)))
F = []

# ids of findings whose *way* of failing is resource exhaustion and varies from run to run (abort / kill /
# time-out): the witness table pins their case set, not the observation
VOLATILE = {"C01-huge-brace-range", "C01-nested-array-index-exponential", "C19-exponential-nesting", "C11-nonfinal-compound-stage-inline"}

def finding(id, prop, desc, all=None, none=None, oracle=None, observed_contains=None, witnesses=None, why=None):
    rule = {}
    if id in VOLATILE: rule["volatile_observation"] = True
    if all: rule["all"] = all
    if none: rule["none"] = none
    if oracle: rule["oracle"] = oracle
    if observed_contains: rule["observed_contains"] = observed_contains
    F.append({"id": id, "property": prop, "status": "open", "description": desc, "rule": rule,
              "why_not_fixed": why or "not a small, safe patch", "witnesses": witnesses or []})

def fixed(prop, commit_subject, what):
    sha = subprocess.run(["git", "-C", "/repo", "log", "--format=%h", "--grep", commit_subject, "-1"], capture_output=True, text=True).stdout.strip()
    F.append({"id": f"fixed-{sha}", "property": prop, "status": "fixed", "commit": sha,
              "description": f"fixed: property={prop} {sha} {what}", "rule": {}})

PINNED = "the repository's own suite pins this behaviour (known_failure: true cases), so a repair makes the unedited suite fail"

# ---------------------------------------------------------------------------------------------- fixed
fixed("C01", "do not panic on descriptor numbers", "`echo 99999999999999999999>x`, `{1..99999999999999999999}`, `~99999999999999999999` panicked (unwrap on integer overflow in the PEG actions)")
fixed("C01", "integer-attribute += wraps", "`declare -i x=9223372036854775807; x+=1` panicked with an arithmetic overflow")
fixed("C01", "capitalising a value that starts with a multi-byte", "`declare -c x=éa` panicked (replace_range on a non-boundary)")
fixed("C01", "read -t with a huge timeout", "`read -t 99999999999999999999` / `read -t 9223372036854775807` panicked in Duration/Instant arithmetic")
fixed("C01", "invalid strftime specifier", "`x='\\D{%}'; echo \"${x@P}\"` panicked in chrono's Display")
fixed("C06", "substring expansion with a negative length", "`${v:2:-1}` returned one character too many, `${v:1:-2}` panicked, `${#v}`/negative offsets counted bytes")
fixed("C06", "negative substring length on an unset variable", "`unset v; echo ${v:0:-1}` reported an error instead of expanding to nothing")
fixed("C06", "shortest prefix/suffix removal considers the empty match", "`${x#*}` and `${x%*}` deleted a character")
fixed("C08", "patterns must match the whole string", "`case $'x\\nabc' in abc)` matched: patterns were compiled with (?ms)")
fixed("C09", "elements of a readonly array cannot be assigned", "`readonly a=(1 2); a[0]=x` and `unset 'a[0]'` succeeded")
fixed("C17", "a new job never reuses the number of a live job", "launch, launch, finish 1, poll, launch gave two live jobs numbered 2")
fixed("C02", "does not negate the status carried by exit or return", "`! exit 4` exited with 0, `f() { ! return 3; }` returned 0")
fixed("C14", "printed redirection lists keep their separators", "`declare -f` printed `done> /dev/null2>& 1`")
fixed("C13", "export -p escapes the characters", "`export -p` wrote raw values between double quotes; a value with a double quote, backslash, dollar or backquote did not read back")
fixed("C13", "alias listing quotes an embedded single quote", "the alias listing printed an embedded single quote unescaped")
fixed("C13", "leading ~ or # is quoted", "`printf %q`, `${v@Q}`, `set` and the xtrace printed a leading `~` or `#` bare (tilde expansion / comment on re-read)")
fixed("C04", "read decodes UTF-8 input", "`read r <<<é` stored the two bytes as two Latin-1 characters")
fixed("C06", "with an empty pattern leaves the value unchanged", "`${v/$p/X}` and `${v//$p/X}` with an empty pattern inserted X")
fixed("C10", "backslash-newline in an unquoted here-document body", "a backslash-newline in an unquoted here-document body was kept verbatim")
fixed("C10", "&> honours noclobber", "`&>f` truncated an existing file under set -C")
fixed("C07", "hex, octal and oversized decimal arithmetic literals wrap", "`$((0x8000000000000000))`, `$((99999999999999999999))`, `$((0x))` were rejected")

fixed("C06", "replacement text of", "`r='$0'; ${v/b/$r}` gave the matched text instead of `$0` (the value of the replacement was used as a regex capture template; `${1}`, `$$` likewise)")
fixed("C06", "matches the empty string does not replace once more", "`x=ab; ${x//*(c)/X}` gave `XaXbX`, bash `XaXb`")
fixed("C13", "after = or : is quoted", "`printf %q a=~` / `${v@Q}` / xtrace left `~` after `=` or `:` bare; re-read as an argument it was tilde-expanded")
fixed("C01", "in a printf format stops the output", "`printf '\\c%s' a b` looped forever (the `\\c` break left the argument loop running without consuming arguments)")
fixed("C01", "while expanding PS4 are not traced", "`PS4='$(echo x) '; set -x; echo hi` recursed until the stack was exhausted")
fixed("C01", "alias with an empty value", "`alias e=''; e` panicked (index 0 of an empty word list)")
fixed("C01", "descending brace ranges with a huge step", "`echo {z..a..200}` and `{-5..-9223372036854775807..9223372036854775807}` panicked on a subtraction overflow")
fixed("C01", "largest array index wraps", "`a=([18446744073709551615]=x y)` panicked with an addition overflow")
fixed("C01", "mapfile -O with a huge origin", "`mapfile -O 9223372036854775807 a` panicked with an addition overflow")
fixed("C01", "caller with a huge frame number", "`caller 18446744073709551615` panicked with an addition overflow")
fixed("C01", "SHLVL=4294967295", "`SHLVL=4294967295 brush -c true` panicked at start-up")
# ---------------------------------------------------------------------------------------------- C01
finding("C01-huge-brace-range", "C01", "a brace range with an astronomically large bound (`{1..9223372036854775807}`, `{4294967296..3}`) exhausts memory/time (capacity-overflow panic, abort or hang) where bash prints the braces literally",
        all=["huge-range"], why="needs an allocation policy for brace expansion, not a local patch")
fixed("C01", "brace expansion parsing is no longer exponential in the nesting depth", "`echo {{{{{{{{{{{{{{{{{{{{{{x}}}}}}}}}}}}}}}}}}}}}}` (22 nested braces that do not form a brace expansion) did not finish within a minute; `parse_brace_expansions` took 2x per nesting level (also for `{ { { …` texts reaching it as one word)")
finding("C01-heredoc-empty-delimiter-at-eof", "C01", "`<<''` or `<<\"\"` followed by a blank and the end of the input (5 characters): the tokenizer never leaves the here-document state at end of input (an empty delimiter 'matches' the empty rest again and again), memory grows until the process aborts; seen in the parser entry points and through the real binary (`brush -c \"<<'' \"` under `ulimit -v`: Aborted, status 134; bash: a warning, status 0)",
        all=["heredoc-empty-delimiter", "worker-death"], why="found in the last hour of the session by the thorough tier (strings of length 5); the repair belongs in remove_here_end_tag / the end-of-input branch of next_token_until and was not attempted for lack of time to validate it")
finding("C01-editor-nested-extglob-exponential", "C01", "highlighting/completing a line with 32 nested extended-glob groups (`case a in @(@(…(a)…)) …`) does not finish within 12 s (depth 16 does); the non-interactive shell runs the same text in 0.01 s",
        all=["nest:extglob", "timeout"], why="same family as C19-exponential-nesting (interactive entry points re-parse nested constructs); thorough tier only")
finding("C01-nested-case-subshell-exponential", "C01", "`case a in a) ( case a in a) ( … ) ;; esac ) ;; esac`: parsing alternating `case` items and subshells takes time exponential in the depth (x2 per level: 16 levels 0.4 s, the corpus's 32+32 levels do not finish; bash: instant) - the optional `(` before a case pattern makes the item ambiguous with a subshell and the PEG parser backtracks over the whole nested body",
        all=["nest:case", "nest:subshell", "timeout"], why="needs a restructuring of the case-item rule (or caching of the compound-command rules); thorough tier only (depth 64)")
finding("C01-nested-case-procsub-exponential", "C01", "same with process substitutions between the `case` levels (`case a in a) vcat <(case a in a) … esac) ;; esac`)",
        all=["nest:case", "nest:procsub", "timeout"], why="same")
finding("C01-nested-array-index-exponential", "C01", "nested array subscripts `${a[${a[${a[…]}]}]}` take time exponential in the depth (depth 8 does not finish): the word parser re-parses the subscript at every level",
        all=["nest:array-index", "timeout"], why="parser design (re-parsing of subscripts)")
finding("C01-nested-array-index-exponential-binary", "C01", "same exponential subscript parse seen through the real binary",
        all=["nest:array-index"], oracle="real-binary")
finding("C01-syntax-error-accepted-redirect-target", "C01", "`{ echo a; } > 2>&1` (redirection operator as a redirection target) is accepted silently; bash reports a syntax error",
        all=["syntax-error-accepted"], why="grammar change in the redirect target rule; interacts with many accepted forms")

finding("C01-printf-width-in-uucore", "C01", "`printf '%65536d' 1`, `printf '%*d' 65536 1` and `printf '%*s' -9223372036854775808 a` panic inside the third-party formatter (uucore format/spec.rs: a width above 65535 is passed to core::fmt, and the negative `*` width is negated)",
        all=["panic"], oracle="no-crash", observed_contains="uucore-", why="the defect is in the uucore crate; brush's printf hands the format over unparsed, so a guard would have to re-implement the width parsing")
# ---------------------------------------------------------------------------------------------- C02
for k in ["break", "continue"]:
    finding(f"C02-{k}-outside-loop", "C02", f"`{k}` outside any loop (or with more levels than enclosing loops) is not a no-op: the control flow escapes to the program level and silently ends the script (or yields status 99 at a function boundary)",
            all=[f"{k}:outside-loop"], why=PINNED + " (for.yaml 'Continue with bad N', 'Continue in nested for loop with too large N'); a correct repair needs a dynamic loop-depth counter in the shell")
    finding(f"C02-{k}-levels-exceed-loops", "C02", f"`{k} n` with n larger than the number of enclosing loops ends the script instead of leaving all loops",
            all=[f"{k}:levels>loops"], why=PINNED)
    finding(f"C02-{k}-0", "C02", f"`{k} 0` returns status 2 and keeps looping; bash reports the error with status 1 and leaves the loop",
            all=[f"{k}:0"], why=PINNED)
finding("C02-break-through-function", "C02", "break/continue inside a function called from a loop does not affect the caller's loop (status 99 leaks out of the function)",
        all=["ctl-in-func-called-from-loop"], why="needs a dynamic loop-depth counter")
finding("C02-negated-return-in-subshell", "C02", "`( ! return )` inside a function yields 0; bash yields 1",
        all=["return:in-subshell", "return:negated"])

# ---------------------------------------------------------------------------------------------- C03
finding("C03-err-trap-fires-twice", "C03", "the ERR trap fires twice for one failing command when errtrace is on or the failure is inside a brace group / eval",
        all=["err-trap-count"], why=PINNED + " (errtrace.yaml 'errtrace with errexit in function'): a 20-line repair in Pipeline::execute (compound commands other than subshells do not re-report; return/exit are not failures) was written, made every enumerated case agree with bash, and was withdrawn because it turns that known_failure case into an unexpected pass")
finding("C03-errexit-negated-group", "C03", "`{ ! { ! ko; }; }` under set -e exits: the exemption of a negated pipeline is not remembered through the enclosing compound command",
        all=["brush-exits-bash-continues"], why="errexit suppression is not propagated back out of compound commands")
finding("C03-negated-loop-in-subshell", "C03", "`( ! while …; do ko; done )` under set -e: bash leaves the subshell at the failing command, brush keeps looping",
        all=["other-divergence", "subshell", "not"], why="bash's own corner (negated compound as the only command of a subshell)")
finding("C03-err-trap-inside-negated-compound", "C03", "`! while c; do ko; done` with an ERR trap: bash runs the trap after each failing `ko` inside the negated loop, brush suppresses it there and runs it after the loop instead",
        all=["other-divergence", "not"], observed_contains="ERR", why=PINNED + " (same mechanism as C03-err-trap-fires-twice: where Pipeline::execute reports a failure)")
finding("C03-errexit-after-negated-compound", "C03", "a compound command (`case`, `for`, …) whose status 1 comes from a `!`-negated pipeline inside it makes errexit fire when the compound ends; bash goes on (here: falls through `;&` to the next arm and exits there)",
        all=["other-divergence", "not"], none=["opts:ERR", "opts:e+ERR", "opts:e+errtrace+ERR"], why="same defect as C03-errexit-negated-group, seen where bash also exits, only later")
finding("C03-errexit-after-negated-compound-in-stage", "C03", "same defect inside the first stage of a pipeline while the parent has an ERR trap (not inherited by the stage, so nothing is printed by it): `set -e; trap … ERR; { for …; do for …; do ! { ! ko; }; done; done; } | cat` — brush's stage exits when the inner loop ends with the exempt status 1, bash's goes on",
        all=["other-divergence", "not", "wrap:pipe-first", "opts:e+ERR"], why="same defect as C03-errexit-negated-group (thorough tier only: needs 5 grammar nodes)")
finding("C03-errexit-after-exempt-andor-in-loop", "C03", "a loop whose last body command is `ko && x` ends with status 1 from the exempt left operand; brush lets errexit fire when the (nested) loop ends, bash does not (the failure happened in an exempt position)",
        all=["other-divergence", "and"], why="same defect as C03-errexit-negated-group: the exemption is not carried out of the compound command with its status")
finding("C03-errexit-after-exempt-andor-in-loop2", "C03", "same with `||` chains", all=["other-divergence", "or"], why="same")
finding("C03-nounset-arith-and-transforms", "C03", "under set -u, arithmetic on an unset variable is a non-fatal error (bash aborts), `${v@a}`/`${v@A}` of unset targets are accepted, `${#v[@]}`/`${!v}` differ, `$!` is accepted when unset",
        all=["nounset"], why=PINNED + " ('Special parameter $! does not error when no background jobs'); the rest needs a uniform unset check in every operator arm")

# ---------------------------------------------------------------------------------------------- C04
finding("C04-literal-words-split", "C04", "literal (unquoted, unexpanded) words are field-split by IFS: `IFS=a; echo banana` prints `b n n`, `IFS=-; set -f` no longer sets the option, `for w in anb` iterates twice under IFS=n",
        all=["ctx:literal-word"], why=PINNED + " (ifs.yaml 'IFS does not affect for loop literal words'); splitting is applied to whole expanded words rather than to expansion results only")

# ---------------------------------------------------------------------------------------------- C05
finding("C05-brace-expansion-resplit", "C05", "brace expansion joins the alternatives with a space and re-splits them, so with IFS lacking a space (`IFS=`, `IFS=$'\\n'`) `{p,q}` stays one word `p q`",
        all=["piece:brace-list"], none=["ifs:default", "ifs:unset", "ifs:space"])
finding("C05-brace-range-resplit", "C05", "same for `{1..3}`",
        all=["piece:brace-range"], none=["ifs:default", "ifs:unset", "ifs:space"])
finding("C05-dq-star-empty-ifs", "C05", "`\"$*\"` with IFS='' joins the positional parameters with a space instead of nothing",
        all=["piece:dq-star", "ifs:empty"])

fixed("C05", "expands to nothing and whose other expansions are empty vanishes", "`set --; v=; f \"$v$@\"` passed one empty argument, bash none")
# ---------------------------------------------------------------------------------------------- C06
finding("C06-tilde-case-toggle", "C06", "`${v~}` / `${v~~}` are not recognised (printed literally)",
        all=["form:${v~}"])
finding("C06-tilde-case-toggle2", "C06", "`${v~~}` not recognised", all=["form:${v~~}"])
finding("C06-transform-u-words", "C06", "`${v@u}` capitalises every word of the value; bash only the first character", all=["form:${v@u}"])
finding("C06-transform-A-unset", "C06", "`${v@A}` of a declared-but-unset or unset variable", all=["form:${v@A}"])
finding("C06-transform-a-unset-nounset", "C06", "`${v@a}` of an unset variable under nounset is accepted", all=["form:${v@a}", "nounset"])
finding("C06-array-slices", "C06", "`${a[@]:o:l}` on sparse / associative arrays, `${@@A}`, `${a[@]@a}` differ from bash",
        all=["kind:array"])

fixed("C06", "assigns to the variable that ref names", "`r=v; unset v; ${!r:=d}` assigned to `r` instead of `v`")
finding("C06-trailing-backslash", "C06", "a pattern ending in an unescaped backslash matches a trailing backslash of the value; in bash it matches nothing (see C08-trailing-backslash)",
        all=["pat:trailing-backslash"], why="same as C08-trailing-backslash")
finding("C06-negated-alternation", "C06", "`!(a|ab)` matches `ab` (and `!(a|a*)` matches `aa`): the negated group is translated to `(?:(?!a|ab).*|(?>a|ab).+?|)`, whose atomic second arm commits to the first alternative that fits and lets the rest of a longer alternative count as the 'extra' text",
        all=["pat:negated-alternation"], why="needs a different translation of !( ) (a whole-region negative look-ahead), not a local patch; `!(ab|a)` with the longer alternative first works")
finding("C06-alternation-first-not-longest", "C06", "`${v/@(a|ab)/X}` on `ab` gives `Xb` (bash `X`): the substitution operators take the regex engine's first successful alternative instead of the longest match; `#`/`##`/`%`/`%%` are not affected (they test every prefix/suffix)",
        all=["pat:paren"], none=["pat:negated-alternation"], oracle="bash", why="regex alternation is ordered; POSIX-longest needs trying every end position per start, as the removal operators do")
fixed("C06", "accepts an empty match right after a replaced match", "`x='a '; ${x//*(a|b)/X}` gave `X `, bash `XX `")
finding("C06-patsub-replacement-amp", "C06", "bash 5.2 (`patsub_replacement`, on by default) replaces an unquoted `&` in the replacement of ${v/p/r} by the matched text; brush inserts a literal `&`",
        all=["replacement", "rep:unquoted-amp"], why="a missing feature (needs quoting information of the replacement word at substitution time), not a slip")
finding("C06-patsub-replacement-backslash", "C06", "same feature: in an unquoted replacement `\\\\` stands for one backslash (and `\\&` for `&`); brush keeps both characters",
        all=["replacement", "rep:backslash"], why="part of the same missing feature")
# ---------------------------------------------------------------------------------------------- C07
finding("C07-declare-i", "C07", "`declare -i d; d=<expr>` does not evaluate the expression",
        all=["ctx:declare-i"], why=PINNED + " ('Integer variable evaluates arithmetic on assignment')")
finding("C07-arith-command-error-aborts", "C07", "an evaluation error inside `(( ))` aborts the rest of the script line sequence instead of yielding status 1",
        all=["ctx:(("], observed_contains="ERR", why=PINNED + " ('Division by zero in (( ))')")
finding("C07-shift-in-subscript", "C07", "`<<` inside an array subscript or substring offset (`${a[1 << 1]}`, `${s:1 << 1}`) is not parsed as a shift",
        all=["bin:<<"], none=["ctx:((", "ctx:let", "ctx:declare-i"])
finding("C07-shift-assign-in-subscript", "C07", "`<<=` inside an array subscript or substring offset is not parsed",
        all=["assign:<<="], none=["ctx:((", "ctx:let", "ctx:declare-i"])
finding("C07-malformed", "C07", "lexing quirks: empty `$(( ))` is an error (bash: 0), `--1`/`++1` are errors (bash: 1), `'1'+1` is accepted (bash: error)",
        all=["malformed"])

finding("C07-inc-dec-run-before-non-name", "C07", "`++`/`--` not followed by a name: bash reads `++ +x`, `+++x`, `x+ ++1`, `++-x` as unary signs (and `+ ++x`), brush reports a syntax error (or, for `1++x`, accepts what bash rejects)",
        all=["confusable-pair", "same-when-alone", "text:inc-dec-run"], why="the arithmetic grammar tokenises `++`/`--` greedily without bash's look-ahead for an identifier; the result is the same whether or not another spelling was evaluated before (not order-dependent)")
# ---------------------------------------------------------------------------------------------- C08
finding("C06-leading-rbracket", "C06", "same defect as C08-leading-rbracket seen through the removal operators: with p='[]]' `${v#$p}` / `${v##$p}` / `%` / `%%` do not treat the `]` right after `[` as a member (v=']a' stays, v='[]]' is emptied); thorough tier only (patterns of three symbols)",
        all=["pat:bracket"], why="same repair as C08-leading-rbracket (bracket-expression translation in brush-parser/src/pattern.rs)")
finding("C08-leading-rbracket", "C08", "a `]` right after `[` or `[!` is not taken literally (`[]]`, `[!]]`)",
        all=["pat:leading-rbracket"])
finding("C08-nullglob-invalid-bracket", "C08", "under nullglob a word with an unterminated `[` is kept; bash removes it (any unquoted `[` makes the word a pattern)",
        all=["glob", "pat:bracket", "nullglob"])
finding("C08-quoted-dot-in-subdir-component", "C08", "a path component after a `/` that starts with a quoted or escaped dot (`d/'.'*`, `d/\\.*`) does not match dot-files: the word is left unexpanded",
        all=["glob:quoted-segments", "glob:slash"])
finding("C08-test-forces-extglob", "C08", "`[[ s == p ]]` does not force extglob on its right-hand side when extglob is off",
        all=["form:[[", "pat:extglob-group"])
finding("C08-bracket-edge-cases", "C08", "bracket expressions containing `!`/`-`/`\\` at the edges (`[!-]`, `[\\]]`, `[a-]`) differ from bash",
        all=["pat:bracket"], none=["glob"])

finding("C08-trailing-backslash", "C08", "a pattern ending in an unescaped backslash (`*\\`) matches subjects that end in a backslash; in bash such a pattern matches nothing",
        all=["pat:trailing-backslash"], why="unspecified by POSIX; bash's matcher fails the match at the dangling escape, brush's translation escapes the end of the regex")
finding("C08-negated-match-all", "C08", "`!(*)` matches the empty string (nothing can match the negation of a pattern that matches everything): the translation of `!( )` ends in an empty alternative",
        all=["pat:negated-match-all", "pat:extglob-group"], why="same translation as C06-negated-alternation: `(?:(?!P).*|(?>P).+?|)`; needs a whole-region look-ahead")
finding("C08-quoted-member-in-bracket", "C08", "inside a bracket expression written in the source, a quoted or escaped `-`, `!` or `^` still acts as range / negation operator (`[a\"-\"c]` matches `b`, `[\"!\"a]` does not match `a`), and a word whose bracket expression contains a quoted or escaped `]` is not pathname-expanded at all (`[a\"]\"]` stays literal although files `a` and `]` exist); `[[ ]]`, `case` and the parameter-expansion operators handle the quoted `]`",
        all=["quoted-bracket-member"], why="quote removal hands the glob grammar an escaped text in which only regex-special characters are protected; protecting `-`/`!`/`^` as well changes how every literal piece is escaped and needs a review of the regex post-processing (`add_missing_escape_chars_to_regex`)")
finding("C08-extglob-empty-alternative", "C08", "extglob groups with an empty alternative (`*@()`, `*!()`, `!(|)`) disagree with bash on the empty subject and on subjects that only the empty alternative accounts for",
        all=["pat:empty-alternative", "pat:extglob-group"], why="the extglob-to-regex translation gives `()` the regex meaning; bash itself is irregular here (see C06 false-alarm note), a repair would have to mirror bash's matcher case by case")
finding("C08-extglob-paren-inside-group", "C08", "`*(()`, `?(()`, `!(()`: a bare `(` inside an extglob group (bash takes the pattern as unbalanced and matches nothing; brush matches the empty repetition)",
        all=["pat:paren-inside-group", "pat:extglob-group"], why="same translation; degenerate pattern")
# ---------------------------------------------------------------------------------------------- C09
finding("C09-exported-array-in-env", "C09", "an exported array reaches children as `a=<first element>`; bash does not export arrays",
        all=["act:export-a"])
finding("C09-readonly-temp-assignment", "C09", "`r=tmp cmd` with readonly r runs cmd with r=tmp; bash refuses",
        all=["act:tmp-ro-external"])
finding("C09-readonly-arith-aborts", "C09", "`(( r = 5 ))` / `for r in …` / `read r` on a readonly variable abort the enclosing function or script instead of failing the one command",
        all=["act:arith-r"])
finding("C09-readonly-for-aborts", "C09", "`for r in q` with readonly r", all=["act:for-r"])
finding("C09-readonly-read", "C09", "`read r` with readonly r", all=["act:read-r"])
finding("C09-readonly-assign-in-function", "C09", "a failed assignment to a readonly variable inside a function does not unwind to the top level as in bash",
        all=["act:ro-assign"])
finding("C09-readonly-append-in-function", "C09", "same for `r+=…`", all=["act:ro-append"])
finding("C09-readonly-elem-in-function", "C09", "same for `r[0]=…`", all=["act:ro-elem"])
finding("C09-unset-readonly-elem", "C09", "same for `unset 'r[0]'`", all=["act:unset-ro-elem"])
finding("C09-unset-readonly", "C09", "`unset r` on a readonly variable", all=["act:unset-r"])
finding("C09-export-attr-on-locals", "C09", "`export x` on a function local or after `declare -i/-l/-u/-a x` loses or mis-reports the export attribute",
        all=["act:export-x"])
finding("C09-declare-a-on-scalar", "C09", "`declare -a x` on a set scalar / local produces `([0]=\"\")` artefacts",
        all=["act:declare-a-x"])
finding("C09-getopts-int", "C09", "`getopts` storing into an integer / readonly variable", all=["act:getopts"])
finding("C09-tmp-builtin-readonly", "C09", "`x=tmp eval …` with readonly x", all=["act:tmp-builtin", "act:readonly-x"])
finding("C09-tmp-with-readonly-x", "C09", "temporary assignment to a variable made readonly earlier is applied", all=["act:readonly-x"])
finding("C09-declare-r-a-tmp", "C09", "temporary assignment to a readonly array", all=["act:declare-r-a"])
finding("C09-local-unset-elem", "C09", "`local a; unset 'a[0]'` status", all=["act:local-a", "act:unset-elem"])
finding("C09-unset-exported", "C09", "`export x; unset x` / re-declaration keeps or drops the export flag differently", all=["act:unset-x"])
finding("C09-local-shadows-readonly", "C09", "`local r=…` shadowing a readonly global is accepted (bash refuses) and later writers then act on the local", all=["act:local-r"])
finding("C09-declare-x-attr-combos", "C09", "`declare -x x` combined with -i/-l/-u loses or reorders attributes in `declare -p`", all=["act:declare-x"])
finding("C09-local-inherits-temp-assignment", "C09", "`f() { local x; echo ${x-UNSET}; }; x=tmp f`: in bash a `local x` without a value inherits the value of the temporary assignment of the call (prints tmp); brush creates an unset local",
        all=["act:tmp-function-local"], why="bash-specific inheritance rule of `local`; needs the command scope to be consulted when a local is created")
finding("C09-export-of-temp-assignment-persists", "C09", "`f() { export x; }; x=tmp f`: bash keeps `x=tmp` exported in the caller after the call (exporting a temporary binding promotes it); brush restores the previous binding",
        all=["act:tmp-function-export"], why="bash-specific promotion rule; the temporary binding would have to be merged into the enclosing scope when its attributes change")
finding("C09-readonly-local-writers", "C09", "same as the readonly-writer findings with a readonly LOCAL: after `local -r x=v` a later `x=…`, `x+=…`, `(( x = … ))`, `for x in …` in the function or a callee does not unwind / fail the way bash's does",
        all=["act:local-r-x"], why="same mechanism as C09-readonly-assign-in-function / C09-readonly-arith-aborts")
finding("C09-unset-exported-a", "C09", "same for arrays", all=["act:unset-a"])

# ---------------------------------------------------------------------------------------------- C10
finding("C10-heredoc-continuation-before-delimiter", "C10", "in an unquoted here-document a body line ending in a backslash is joined with the next line only after the delimiter has been looked for: `a\\<newline>EOF` ends the document (bash reads on, the joined line `aEOF` is not the delimiter)",
        all=["heredoc", "line:trailing-backslash"], why="the tokenizer's delimiter search would have to process continuations; the common case (continuation between ordinary body lines) was repaired")

fixed("C10", "word of a here-string is not brace-expanded", "`cat <<<{1,2}` printed `1 2`")
fixed("C10", "a failed redirection on a compound command fails that command only", "`( { echo a; } <&3; echo after )`, `f() { { :; } >existing-under-noclobber; echo after; }`: the failed redirection of a compound command ended the enclosing subshell / function / brace group / command substitution instead of giving that command status 1")
fixed("C10", "a here-document larger than the largest pipe is fed from a thread", "a here-document or here-string body larger than /proc/sys/fs/pipe-max-size (1 MiB) failed the command with `platform error: EPERM` (F_SETPIPE_SZ refused) instead of delivering the body")
# ---------------------------------------------------------------------------------------------- C11
fixed("C11", "read a command substitution's output on a blocking thread", "`x=$(echo \"$(vprod 1048576)\")` (nested command substitution whose outer writer is a builtin, output larger than a pipe buffer) hung in 30 of 40 runs of the real binary; `x=$(printf %s \"$(printf %s \"$P\")\")` with 1 MiB in 5 of 40")
finding("C11-nonfinal-compound-stage-inline", "C11", "a function, brace group, subshell or loop in a non-final pipeline position is executed inline while the pipeline is still being set up: with more data than the pipe holds (or an early-exit reader) the pipeline hangs",
        all=["nonfinal-compound-stage", "hang"], why="pipeline set-up design: compound stages must become concurrent tasks")

# ---------------------------------------------------------------------------------------------- C12
finding("C12-umask-leaks", "C12", "`umask` inside any subshell context changes the parent's mask (subshells are clones inside one process)",
        all=["leak:umask/"], why="process-wide state; needs a virtual umask applied at open/spawn time")
finding("C12-ulimit-leaks", "C12", "`ulimit` inside any subshell context changes the parent's limits",
        all=["leak:rlimit_nofile/0]"], why="process-wide state")
finding("C12-exit-in-last-stage", "C12", "`exit` in the last stage of a pipeline terminates the parent shell (the last stage is not a subshell)",
        all=["parent-control-flow", "ctx:pipe-final"], why="pipeline design (lastpipe-like execution of the final stage)")
finding("C12-nested-parens-arith", "C12", "`( ( cmd ) )` written with adjacent parentheses (`((cmd) )`, `( ( x=1\\n) )`) is taken for an arithmetic command",
        all=["ctx:nested-subshell"], why="tokenizer/grammar ambiguity between (( and ( (")
finding("C12-nested-parens-parse", "C12", "same, seen by the parse probes", all=["nested-paren-parse"])

# ---------------------------------------------------------------------------------------------- C13
finding("C13-trap-p-single-quote", "C13", "`trap -p` lists a command containing a single quote without escaping it (the listing cannot be read back)",
        all=["producer:trap -p", "sym:squote"], why=PINNED + " (trap.yaml 'trap handler - single quotes preserved'): the one-line repair was written, validated by this check, and withdrawn because it makes that known_failure case pass")
finding("C13-assoc-key-tilde", "C13", "an associative-array key starting with `~` is printed bare inside `[...]` by declare -p and tilde-expanded when read back",
        all=["producer:declare -p assoc key", "sym:leading-tilde"])

# ---------------------------------------------------------------------------------------------- C14
for feat, what in [("heredoc", "here-document bodies are indented and the closing tag is printed with its quotes"), ("heredoc-quoted", "quoted here-document tag"), ("heredoc-dash", "<<- here-document"), ("heredoc-two", "two here-documents"), ("heredoc-then-cmd", "here-document followed by a command"),
                   ("procsub-in", "`<(cmd)` is printed as `<(( cmd ))`"), ("procsub-out", "`>(cmd)` printing / export"), ("pipeline-stderr", "`|&` is printed as `2>& 1 |` (different AST)"), ("for-default", "`for i; do` is printed as `for i in ;`"),
                   ("arith-cmd", "`(( x = 1 + 2 ))` loses its inner blanks (bash prints them)"), ("redir-fdvar", "`{fd}>f` is printed as `{fd} > f`"), ("case-multi", "case inside a subshell"), ("case-empty", "empty case inside a subshell"), ("case-empty-fallthrough", "case with empty `;&` / `;;&` items inside a subshell (`esac )` does not re-parse)"), ("case-noarm-body", "case arm without body inside a subshell"),
                   ("coproc", "coproc printing"), ("coproc-named", "named coproc printing"), ("select", "select is not accepted"), ("timed-p", "time -p"), ("cond", "[[ ]] with parentheses"), ("cond-regex", "=~ printing"), ("arith-for", "arithmetic for printing"), ("background", "`cmd & wait` printing"), ("amp-list", "& lists"),
                   ("nested-func-redir", "nested function with redirect"), ("quotes", "quoting forms"), ("assign-array", "array assignment printing"), ("comment", "comments"), ("if-elif-else", "if/elif/else in bash's layout"), ("while-redir", "while with redirects"), ("case-multi", "case terminators")]:
    finding(f"C14-print-{feat}", "C14", f"function printing: {what}", all=[f"feat:{feat}"], why="printer rewrite per AST node (Display impls)")
finding("C14-subshell-of-subshell", "C14", "`( ( cmd ) )` is printed as `( ( cmd ) )` once and `((cmd))` on the second print, which re-parses as an arithmetic command",
        all=["subshell-in-subshell"])
finding("C14-subshell-containing-case", "C14", "`( case … esac )` is printed with `esac )` layout that does not re-parse",
        all=["case-in-subshell"])

# ---------------------------------------------------------------------------------------------- C15
finding("C15-stdin-read-ahead", "C15", "when the script is standard input the shell reads ahead: an external command cannot consume the script lines that follow it",
        all=["prog:vline-next-line"], why="the stdin front-end buffers its input; bash reads byte-wise")

# ---------------------------------------------------------------------------------------------- C16
finding("C16-exit-in-exit-trap", "C16", "`exit n` inside the EXIT handler does not become the process status",
        all=["handler:calls-exit"], why=PINNED + " (trap.yaml 'EXIT trap - can modify exit status'); a 7-line repair in Shell::on_exit was written and validated by this check, then withdrawn because it turns that known_failure case into an unexpected pass")
finding("C16-exit-in-exit-trap-special", "C16", "same (special script)", all=["special:exit-in-exit-handler-twice"], why=PINNED)
finding("C16-subshell-exit-trap", "C16", "an EXIT trap set inside `( … )` never fires at the end of the subshell",
        all=["life:set-in-subshell"], why=PINNED + " ('subshell can set its own EXIT trap')")
finding("C16-eval-syntax-error-fatal", "C16", "a syntax error inside `eval` terminates the shell; bash continues with status 2",
        all=["path:eval-syntax-error"])
finding("C16-last-stage-not-subshell", "C16", "`true | exit n` terminates the shell (the last pipeline stage is not a subshell)",
        all=["ctx:pipeline-last"], why="pipeline design")
finding("C16-fatal-expansion-127", "C16", "fatal expansion errors under -c exit with 1 where bash exits with 127",
        all=["status-1-vs-127"], why=PINNED + " ('Expansion error (command line)')")
finding("C16-fatal-expansion-127b", "C16", "same, with the EXIT handler printing the status", all=["path:nounset", "frontend:dash-c"])
finding("C16-fatal-expansion-127c", "C16", "same", all=["path:expansion-error", "frontend:dash-c"])
finding("C16-err-inside-exit-handler", "C16", "an ERR trap set and triggered inside the EXIT handler", all=["handler:err-inside"])
finding("C16-errexit-in-handler-function", "C16", "under errexit a function called by the EXIT handler that returns non-zero does not become the exit status", all=["handler:calls-func", "path:errexit"])
finding("C16-errexit-in-handler-function2", "C16", "same, failure inside a function", all=["handler:calls-func", "path:errexit-in-func"])
finding("C16-return-top", "C16", "`return` at top level of a script", all=["path:return-top"])
finding("C16-errexit-special", "C16", "ERR/EXIT special scripts (handler failing under errexit, errtrace in functions)", all=["special:exit-handler-with-errexit"])
finding("C16-err-handler-subshell-crash", "C16", "`set -E; trap 'echo E; (exit 2)' ERR; false`: the subshell started by the ERR handler starts with a clean 'handler active' set and fires ERR for its own `exit 2`, whose handler starts another subshell …: unbounded recursion, the shell dies of stack exhaustion (bash prints E once)",
        all=["has:ERR", "body:ERR=subshell-fails"], oracle="no-crash", why="consequence of C16-err-fires-per-level (ERR fired for `exit n`), which is pinned; Shell::clone clears the active-handler set on purpose")
finding("C16-err-fires-per-level", "C16", "the ERR trap fires once per enclosing command level instead of once per failing command: again after a loop whose last command failed, for `exit n` / `return n` themselves, in the subshell and again in the parent for `(exit 3)` under errtrace, and at the call site while errexit is already leaving a function",
        all=["has:ERR"], oracle="bash", why=PINNED + " (errtrace.yaml 'errtrace with errexit in function'): the repair (no ERR for results that carry exit/return control flow) was written, validated by this check, and withdrawn because it makes that known_failure case pass")
finding("C16-errexit-inside-exit-handler", "C16", "under errexit a failing command inside the EXIT handler does not end the handler with that status (bash: the process status becomes the failing command's)",
        all=["opts:errexit", "has:EXIT"], oracle="bash", why="same mechanism as C16-errexit-in-handler-function: errexit is not applied to commands run by on_exit")
finding("C16-errexit-inside-exit-handler2", "C16", "same with errtrace", all=["opts:errexit+errtrace", "has:EXIT"], oracle="bash")
finding("C16-err-errtrace-special", "C16", "ERR trap in functions with errtrace fires twice", all=["special:err-in-function-errtrace"])

fixed("C17", "no longer ends the wait of its parent", "`{ sleep 0.2; echo $((1/0)); } & sleep 1 & wait` returned while the second job was still running (the first job's interpreter error surfaced in `wait`)")
# ---------------------------------------------------------------------------------------------- C18
finding("C18-coproc-fd-leak", "C18", "every `coproc` leaves its two descriptors open after the coprocess has finished and been waited for (2 descriptors per iteration)",
        all=["leaf:coproc"], oracle="descriptor-count", why=PINNED + " (coproc cases are known_failure) and needs coproc life-cycle tracking")

finding("C18-coproc-fd-leak-runs-out", "C18", "consequence of C18-coproc-fd-leak: after about 500 coprocesses the process has no descriptors left and the iteration fails",
        all=["leaf:coproc"], oracle="kth-iteration-equals-first", why=PINNED)
# ---------------------------------------------------------------------------------------------- C19
finding("C19-heredoc-spans", "C19", "any line containing a here-document yields overlapping spans (the body is covered twice)",
        all=["newline"], observed_contains="gap/overlap", why="here-document tokens carry the body's location out of order")
finding("C19-escaped-backquote-offsets", "C19", "a backquoted substitution containing an escaped backquote uses offsets of the unescaped text (span end inside a multi-byte character)",
        all=["escaped-backquote"])
finding("C19-exponential-nesting", "C19", "highlighting nested subscripts / nested `$(( ($(…) ))` takes exponential time",
        oracle="no-crash", observed_contains="TIMEOUT", why="parser design (re-parsing)")
finding("C19-tilde-huge", "C19", "(fixed together with C01: `~99999999999999999999`)", all=["never-matches"])

json.dump({"format": "rule.all ⊆ case tags ∧ rule.none ∩ case tags = ∅ ∧ oracle/observed_contains if present; witnesses pin the recorded wrong observation", "findings": F},
          open(os.path.join(HERE, "known_findings.json"), "w"), indent=1, ensure_ascii=False)
print(len([f for f in F if f['status']=='open']), "open,", len([f for f in F if f['status']=='fixed']), "fixed")
