#!/bin/bash
# tools/try_seeded.sh <seeded-id | path/to/patch.diff> <PROP> [<PROP>…]
# Applies a seeded change to /repo, runs the named quick checks (they rebuild from /repo's working tree),
# and restores /repo. Prints one line per check: DETECTED (exit 1 + VIOLATION) / MISSED (exit 0) / ERROR.
set -u
V=/verif
p="$1"; shift
[ -f "$p" ] || p="$V/seeded/$p/patch.diff"
[ -f "$p" ] || { echo "no patch $p"; exit 2; }
if ! git -C /repo diff --quiet; then echo "/repo has uncommitted changes"; exit 2; fi
git -C /repo apply "$p" || { echo "patch does not apply"; exit 2; }
# restore the tree AND rebuild, so that target/release/vcheck never stays a build of the seeded change
trap 'git -C /repo checkout -- . ; git -C /repo clean -fdq -e target 2>/dev/null; (cd $V/harness && cargo build --release --offline >/dev/null 2>&1)' EXIT
for prop in "$@"; do
  out=$(cd $V && VCHECK_QUIET=1 ./check "$prop" --tier "${TIER:-quick}" 2>&1); rc=$?
  nv=$(echo "$out" | grep -c '^VIOLATION')
  if [ $rc -eq 1 ] && [ "$nv" -gt 0 ]; then echo "DETECTED $prop ($nv violation groups) :: $(echo "$out" | grep -A1 'violation \[' | head -4 | tr '\n' ' ' | cut -c1-300)";
  elif [ $rc -eq 0 ]; then echo "MISSED   $prop";
  else echo "ERROR    $prop rc=$rc :: $(echo "$out" | tail -3 | tr '\n' ' ' | cut -c1-300)"; fi
done
